// C02 — best-effort delivery never duplicates, reorders or corrupts: one-step obligations on the real
// RtpsStatefulReader with ReliabilityKind::BestEffort (see vlib/ptab/rtps_proto.py for the induction).
use alloc::sync::Arc;
use alloc::vec::Vec;

use super::support_rtps as s;
use crate::rtps_messages::submessage_elements::{Data, Parameter, ParameterList};
use crate::rtps_messages::submessages::data::DataSubmessage;
use crate::transport::types::{ChangeKind, ReliabilityKind};

const SN_TOP: i64 = i64::MAX - 16;

// @check props=C02 tier=quick
// @desc Best-effort reader DATA step: from every writer-proxy state (first_available, highest_received) and for EVERY incoming DATA sequence number (full i64), a change is appended iff the DATA comes from the matched writer and sn > available_changes_max (the highest sequence number accepted or skipped so far); then exactly one change is appended, it carries the submessage's sn, writer, kind, key hash and payload bytes, and available_changes_max becomes sn - so every later accepted sample has a strictly larger sequence number. Otherwise nothing changes. By induction over deliveries (any loss/duplication/reorder pattern) the presented samples are a strictly increasing subsequence of the published ones, each at most once, byte-identical.
// @bounds proxy state and sn over full i64 under the invariant; payload length 0..=3 symbolic bytes; optional 16-byte key hash; unwind 3 (memcmp 17)
// @assume writer-proxy representation invariant first_available >= 1, highest_received >= 0 (re-asserted); environment: no sequence number within 16 of i64::MAX
// @enc rtps::stateful_reader::RtpsStatefulReader::on_data_submessage
// @enc rtps::writer_proxy::RtpsWriterProxy::received_change_set
// @enc rtps::writer_proxy::RtpsWriterProxy::lost_changes_update
// @enc rtps::cache_change::CacheChange::try_from_data_submessage
#[kani::proof]
#[kani::unwind(3)]
fn c02_besteffort_data_step() {
    let mut r = s::new_reader(ReliabilityKind::BestEffort);
    let first: i64 = kani::any();
    let highest: i64 = kani::any();
    kani::assume(first >= 1 && highest >= 0 && first <= SN_TOP && highest <= SN_TOP);
    s::set_proxy_state(&mut r, first, 0, highest);
    let old_max = s::proxy(&mut r).available_changes_max();

    let sn: i64 = kani::any();
    kani::assume(sn <= SN_TOP);
    let bytes: [u8; 3] = kani::any();
    let len: usize = kani::any();
    kani::assume(len <= 3);
    let payload = s::payload3(&bytes, len);
    let from_matched_writer: bool = kani::any();
    let has_key: bool = kani::any();
    let key: [u8; 16] = kani::any();
    let mut params = Vec::new();
    if has_key {
        params.push(Parameter::new(crate::rtps::cache_change::PID_KEY_HASH, Arc::from(key)));
    }
    let data = DataSubmessage::new(
        true, true, false, false, s::R_ID, s::W_ID, sn, ParameterList::new(params), Data::new(payload),
    );
    let src = if from_matched_writer { s::W_PREFIX } else { s::R_PREFIX };
    r.on_data_submessage(&data, src, None);

    let new_max = s::proxy(&mut r).available_changes_max();
    let n = r.changes_mut().len();
    if from_matched_writer && sn > old_max {
        assert!(n == 1, "C02: a newer sample is accepted exactly once");
        assert!(new_max == sn, "C02: the accepted sequence number becomes the floor for every later sample");
        let c = &r.changes_mut()[0];
        assert!(c.sequence_number == sn, "C02: accepted change keeps its sequence number");
        assert!(c.writer_guid == s::W_GUID, "C02: accepted change is attributed to the sending writer");
        assert!(c.kind == ChangeKind::Alive, "C02: accepted change keeps its kind");
        assert!(c.data_value.len() == len, "C02: payload length intact");
        assert!(len < 1 || c.data_value[0] == bytes[0], "C02: payload byte 0 intact");
        assert!(len < 2 || c.data_value[1] == bytes[1], "C02: payload byte 1 intact");
        assert!(len < 3 || c.data_value[2] == bytes[2], "C02: payload byte 2 intact");
        assert!(c.instance_handle == if has_key { Some(key) } else { None }, "C02: key hash intact");
    } else {
        assert!(n == 0, "C02: a DATA at or below the floor (duplicate or reordered older sample) is dropped");
        assert!(new_max == old_max, "C02: a dropped DATA does not move the floor");
    }
    assert!(new_max >= old_max, "C02: the floor never decreases");
    kani::cover!(n == 1 && sn == old_max + 1 && len == 3 && has_key, "next sample accepted, 3 bytes + key hash");
    kani::cover!(n == 1 && sn > old_max + 1, "sample accepted after a loss (sequence gap)");
    kani::cover!(n == 0 && from_matched_writer && sn == old_max, "duplicate of the last accepted sample dropped");
    kani::cover!(n == 0 && from_matched_writer && sn < old_max, "reordered older sample dropped");
    core::mem::forget(r);
    core::mem::forget(data);
}

// NOT INDEXED (measured: symbolic execution 92 s, 0.9 M steps, then CBMC runs out of 12 GB in propositional reduction
// after 475 s): any DATA_FRAG step through RtpsStatefulReader is out of reach on this machine. Kept as the record of the
// obligation that could not be decided; see vlib/ptab/rtps_proto.py C02 "outside".
// @disabled-check props=C02 tier=quick
// @desc Best-effort reader DATA_FRAG step on an empty fragment buffer: one fragment (symbolic index) of a 2-fragment sample with EVERY sequence number (symbolic around the floor) is delivered through on_data_frag_submessage: no change is appended and the floor (available_changes_max) does not move - a fragment alone never produces a sample, whatever its sequence number; completion of a buffered sample is c05_reassembly_step_besteffort.
// @bounds 3-byte sample, fragment size 2, fragment index 0..=1, floor symbolic <= 1000, sn symbolic in 0..=1002; unwind 4
// @enc rtps::stateful_reader::RtpsStatefulReader::on_data_frag_submessage
// @enc rtps::writer_proxy::RtpsWriterProxy::push_data_frag
// @enc rtps::writer_proxy::RtpsWriterProxy::reconstruct_data_from_frag
#[kani::proof]
#[kani::unwind(4)]
fn c02_besteffort_frag_step() {
    let mut r = s::new_reader(ReliabilityKind::BestEffort);
    let floor: i64 = kani::any();
    kani::assume(floor >= 0 && floor <= 1000);
    s::proxy(&mut r).received_change_set(floor);
    let old_max = s::proxy(&mut r).available_changes_max();
    let sn: i64 = kani::any();
    kani::assume(sn >= 0 && sn <= 1002);
    let bytes: [u8; 3] = kani::any();
    let c = s::change(sn, Arc::from(&bytes[..]));
    let j: usize = kani::any();
    kani::assume(j < 2);
    let frag = c.as_data_frag_submessage(s::R_ID, s::W_ID, 2, j);
    r.on_data_frag_submessage(&frag, s::W_PREFIX, None);
    assert!(r.changes_mut().len() == 0, "C02: a single fragment of a 2-fragment sample never yields a sample");
    assert!(s::proxy(&mut r).available_changes_max() == old_max, "C02: an incomplete sample does not move the floor");
    kani::cover!(sn <= old_max, "fragment of an old sample (ignored)");
    kani::cover!(sn == old_max + 1 && j == 1, "second fragment of the next sample arrives first");
    kani::cover!(sn > old_max + 1, "fragment of a later sample");
    core::mem::forget(r);
    core::mem::forget(c);
    core::mem::forget(frag);
}
