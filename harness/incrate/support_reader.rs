// Shared support: directly constructed symbolic pre-states of the DataReader sample cache
// (`DataReaderEntity<()>`, pattern S of DESIGN.md: ONE real operation from a constructed pre-state).
//
// Bounded family: exactly n <= 3 stored samples (n is CONCRETE per harness, see `Structure`) over 2
// instance handles and 2 writer guids; instance, writer, change kind, source timestamp, sample state and
// generation counts of every sample symbolic; the `instances` table (via the guarded hook
// `InstanceState::verif_from_parts`) and `instance_ownership` with concrete presence flags and symbolic
// contents.  The *shadow* (`PreState`) is a plain-value copy of what was put into the real object, so
// oracles can be written over integers instead of over the real vectors.
//
// Representation invariant of the reader cache (derived from data_reader_entity.rs, see `rep_ok`):
//   R1  `instances` holds pairwise distinct handles (entries are only ever pushed after a lookup miss
//       and never removed);
//   R2  every stored sample's instance handle is in `instances` (add_reader_change registers the
//       instance before it stores a sample; `instances` never shrinks);
//   R3  `instance_ownership` holds pairwise distinct instance handles, all registered in `instances`
//       (pushed only after a lookup miss, removed by dispose/unregister/deadline).
// Every stored sample carries a distinct `tag` in byte 1 of its writer GUID prefix (an arbitrary byte of
// a real GUID; with SHARED ownership add_reader_change never inspects the writer GUID of a *stored*
// sample, it only copies it) so that a post-state can be compared with the pre-state sample by sample;
// the incoming change carries NEW_TAG in the same byte of its writer GUID.
//
// Cost notes (all measured on this code base, Kani 0.68 / CBMC 6.11):
//  * objects stored in a Vec live in a byte-array heap object; values read back from it are never
//    constant-folded, so only *structure* (list lengths, presence of table entries, concrete QoS enum
//    values held in the entity struct itself) prunes code; symbolic stored values cost nothing extra;
//  * a symbolic list length makes every list loop unroll to the global bound and doubled the formula
//    (out of memory at 12 GB for n <= 2 symbolic) -> `PreState::n` is concrete, harness families
//    enumerate n = 0..=3;
//  * the derived `<InstanceHandle as PartialEq>::eq` is a 16-byte memcmp loop that forces unwind >= 17 on
//    every loop (no answer in 600 s) -> replaced by the proven-equivalent loop-free `handle_eq_stub`,
//    unwinding bound 6;
//  * `Vec::remove` / `Vec::insert` at a symbolic index are byte-level memmoves whose cost grows with the
//    square of the buffer size -> the sample list is allocated with exactly n + 1 slots (the reallocation
//    path of `Vec` is library code, not code under test); all stored samples share ONE payload allocation;
//  * CaDiCaL (Kani's default) needs > 12 GB on the resulting 2-9 M variable formulas, MiniSat 2-5 GB ->
//    every harness carries `#[kani::solver(minisat)]`;
//  * oracles avoid array accesses at symbolic indices (concrete index pairs only);
//  * a `kani::cover!` that is dead code in a harness counts as a failed witness -> covers live in the
//    harness functions, the shared check functions return what they observed.
use alloc::string::String;
use alloc::sync::Arc;
use alloc::vec::Vec;

use crate::dcps::dcps_domain_participant::data_reader_entity::{
    AddChangeResult, DataReaderEntity, InstanceOwnership, InstanceState, ReaderSample,
};
use crate::infrastructure::instance::InstanceHandle;
use crate::infrastructure::qos::DataReaderQos;
use crate::infrastructure::qos_policy::{
    DestinationOrderQosPolicyKind, HistoryQosPolicyKind, Length,
};
use crate::infrastructure::sample_info::{InstanceStateKind, SampleStateKind, ViewStateKind};
use crate::infrastructure::status::SampleRejectedStatusKind;
use crate::infrastructure::time::{Duration, DurationKind, Time};
use crate::transport::types::{ChangeKind, Guid};

pub const MAX_STORED: usize = 3;
pub const N_INST: usize = 2;
pub const N_WRITERS: usize = 2;
/// tag of the incoming change (stored samples use 0, 1, 2)
pub const NEW_TAG: u8 = 9;

// ---------------------------------------------------------------------------------------------
// concrete name spaces: instance handles and writer guids differ in byte 0 only (1 + index)
// ---------------------------------------------------------------------------------------------
pub fn handle_bytes(i: usize) -> [u8; 16] {
    let mut b = [0u8; 16];
    b[0] = 1 + i as u8;
    b
}
pub fn handle(i: usize) -> InstanceHandle {
    InstanceHandle::new(handle_bytes(i))
}
pub fn inst_index(h: &InstanceHandle) -> usize {
    (<[u8; 16]>::from(*h)[0] as usize).wrapping_sub(1)
}
/// writer guid: byte 0 = 1 + writer index, byte 1 = sample tag, entity kind 0x02 (writer with key)
pub fn writer_bytes(i: usize, tag: u8) -> [u8; 16] {
    let mut b = [0u8; 16];
    b[0] = 1 + i as u8;
    b[1] = tag;
    b[15] = 0x02;
    b
}
pub fn writer_guid(i: usize, tag: u8) -> Guid {
    Guid::from(writer_bytes(i, tag))
}
pub fn writer_index(g: &[u8; 16]) -> usize {
    (g[0] as usize).wrapping_sub(1)
}

/// Loop-free replacement for the derived `<InstanceHandle as core::cmp::PartialEq>::eq` (a 16-byte `memcmp`
/// loop in CBMC, which alone forces a global unwinding bound of 17 on every list loop of the code
/// under test).  Harnesses install it with
/// `#[kani::stub(<crate::infrastructure::instance::InstanceHandle as core::cmp::PartialEq>::eq, super::support_reader::handle_eq_stub)]`;
/// its equivalence with the real derived `eq` for all 2 x 16 bytes is itself an obligation
/// (`c18_handle_eq_stub_is_equivalent`, which runs the real `eq`).
pub fn handle_eq_stub(a: &InstanceHandle, b: &InstanceHandle) -> bool {
    let x: [u8; 16] = (*a).into();
    let y: [u8; 16] = (*b).into();
    u128::from_le_bytes(x) == u128::from_le_bytes(y)
}

// ---------------------------------------------------------------------------------------------
// symbolic scalars
// ---------------------------------------------------------------------------------------------
pub fn any_index(n: usize) -> usize {
    let i: usize = kani::any();
    kani::assume(i < n);
    i
}
pub fn any_change_kind() -> ChangeKind {
    let k: u8 = kani::any();
    kani::assume(k < 5);
    match k {
        0 => ChangeKind::Alive,
        1 => ChangeKind::AliveFiltered,
        2 => ChangeKind::NotAliveDisposed,
        3 => ChangeKind::NotAliveUnregistered,
        _ => ChangeKind::NotAliveDisposedUnregistered,
    }
}
pub fn is_not_alive_kind(k: ChangeKind) -> bool {
    matches!(
        k,
        ChangeKind::NotAliveDisposed
            | ChangeKind::NotAliveUnregistered
            | ChangeKind::NotAliveDisposedUnregistered
    )
}
/// Time from a small range: sec in 0..4, nanosec in {0, 500_000_000} (the cache only compares
/// timestamps; the time-based filter subtracts them with the real Duration arithmetic).
pub fn any_small_time() -> Time {
    let sec: i32 = kani::any();
    kani::assume(sec >= 0 && sec < 4);
    let half: bool = kani::any();
    Time::new(sec, if half { 500_000_000 } else { 0 })
}
pub fn any_opt_small_time() -> Option<Time> {
    if kani::any() {
        Some(any_small_time())
    } else {
        None
    }
}
/// Time from a wide range: sec in 0..2^30, every normalised nanosec.
pub fn any_wide_time() -> Time {
    let sec: i32 = kani::any();
    let ns: u32 = kani::any();
    kani::assume(sec >= 0 && sec < (1 << 30) && ns < 1_000_000_000);
    Time::new(sec, ns)
}
pub fn any_opt_wide_time() -> Option<Time> {
    if kani::any() {
        Some(any_wide_time())
    } else {
        None
    }
}
pub fn any_sample_state() -> SampleStateKind {
    if kani::any() {
        SampleStateKind::Read
    } else {
        SampleStateKind::NotRead
    }
}
pub fn any_view_state() -> ViewStateKind {
    if kani::any() {
        ViewStateKind::New
    } else {
        ViewStateKind::NotNew
    }
}
pub fn any_instance_state() -> InstanceStateKind {
    let k: u8 = kani::any();
    kani::assume(k < 3);
    match k {
        0 => InstanceStateKind::Alive,
        1 => InstanceStateKind::NotAliveDisposed,
        _ => InstanceStateKind::NotAliveNoWriters,
    }
}
/// resource limit in {1, 2, 3, unlimited}
pub fn any_limit() -> Length {
    let v: i32 = kani::any();
    kani::assume(v >= 0 && v <= 3);
    if v == 0 {
        Length::Unlimited
    } else {
        Length::Limited(v)
    }
}
pub fn limit_reached(count: usize, l: Length) -> bool {
    match l {
        Length::Unlimited => false,
        Length::Limited(v) => count >= v as usize,
    }
}
pub fn within_limit(count: usize, l: Length) -> bool {
    match l {
        Length::Unlimited => true,
        Length::Limited(v) => count <= v as usize,
    }
}
/// history kind: KEEP_ALL or KEEP_LAST(depth in 1..=3)
pub fn any_history() -> HistoryQosPolicyKind {
    let d: u32 = kani::any();
    kani::assume(d <= 3);
    if d == 0 {
        HistoryQosPolicyKind::KeepAll
    } else {
        HistoryQosPolicyKind::KeepLast(d)
    }
}
pub fn any_destination_order() -> DestinationOrderQosPolicyKind {
    if kani::any() {
        DestinationOrderQosPolicyKind::BySourceTimestamp
    } else {
        DestinationOrderQosPolicyKind::ByReceptionTimestamp
    }
}

/// Default reader QoS with the cache-relevant policies replaced.  The caller decides which of them
/// are symbolic.  `DataReaderQos::is_consistent` (the real validity predicate applied by
/// create_datareader / set_qos) is assumed: an inconsistent QoS is not reachable on an entity.
pub fn reader_qos(
    history: HistoryQosPolicyKind,
    max_samples: Length,
    max_instances: Length,
    max_samples_per_instance: Length,
    destination_order: DestinationOrderQosPolicyKind,
    minimum_separation: DurationKind,
) -> DataReaderQos {
    let mut qos = DataReaderQos::const_default();
    qos.history.kind = history;
    qos.resource_limits.max_samples = max_samples;
    qos.resource_limits.max_instances = max_instances;
    qos.resource_limits.max_samples_per_instance = max_samples_per_instance;
    qos.destination_order.kind = destination_order;
    qos.time_based_filter.minimum_separation = minimum_separation;
    kani::assume(qos.is_consistent().is_ok());
    qos
}

// ---------------------------------------------------------------------------------------------
// shadow of the pre-state
// ---------------------------------------------------------------------------------------------
#[derive(Clone, Copy)]
pub struct SampleSpec {
    pub kind: ChangeKind,
    pub inst: usize,
    pub writer: usize,
    pub ts: Option<Time>,
    pub sample_state: SampleStateKind,
    pub dgc: i32,
    pub nwgc: i32,
    pub tag: u8,
}

#[derive(Clone, Copy)]
pub struct InstSpec {
    /// the handle has an entry in `instances`
    pub known: bool,
    pub view_state: ViewStateKind,
    pub instance_state: InstanceStateKind,
    pub dgc: i32,
    pub nwgc: i32,
    pub last_rx: Time,
    /// the handle has an entry in `instance_ownership`
    pub owned: bool,
    pub owner: usize,
    pub own_last_rx: Time,
}

#[derive(Clone, Copy)]
pub struct PreState {
    /// == n (kept so that loops over the shadow are guarded by a value CBMC's constant propagation sees)
    pub cap: usize,
    /// number of stored samples: a CONCRETE value per harness (a symbolic list length makes every list
    /// loop of the code under test unroll to the global unwinding bound and doubles the formula)
    pub n: usize,
    pub s: [SampleSpec; MAX_STORED],
    pub inst: [InstSpec; N_INST],
}

/// Value domain of the source timestamps of a harness.
#[derive(Clone, Copy, PartialEq, Eq)]
pub enum TimeDomain {
    /// None or sec 0..4 x nanosec {0, 5*10^8}
    Small,
    /// None or sec 0..2^30 x every normalised nanosec
    Wide,
}
pub fn any_opt_time(td: TimeDomain) -> Option<Time> {
    match td {
        TimeDomain::Small => any_opt_small_time(),
        TimeDomain::Wide => any_opt_wide_time(),
    }
}

pub fn any_sample_spec(tag: u8, td: TimeDomain) -> SampleSpec {
    let dgc: i32 = kani::any();
    let nwgc: i32 = kani::any();
    kani::assume(dgc >= 0 && dgc <= 2 && nwgc >= 0 && nwgc <= 2);
    SampleSpec {
        kind: any_change_kind(),
        inst: any_index(N_INST),
        writer: any_index(N_WRITERS),
        ts: any_opt_time(td),
        sample_state: any_sample_state(),
        dgc,
        nwgc,
        tag,
    }
}

pub fn any_inst_spec() -> InstSpec {
    let dgc: i32 = kani::any();
    let nwgc: i32 = kani::any();
    kani::assume(dgc >= 0 && dgc <= 2 && nwgc >= 0 && nwgc <= 2);
    InstSpec {
        known: kani::any(),
        view_state: any_view_state(),
        instance_state: any_instance_state(),
        dgc,
        nwgc,
        last_rx: any_small_time(),
        owned: kani::any(),
        owner: any_index(N_WRITERS),
        own_last_rx: any_small_time(),
    }
}

impl PreState {
    /// R1..R3 on the shadow (R1 and the distinctness part of R3 hold by construction: one optional
    /// entry per handle).
    pub fn rep_ok(&self) -> bool {
        let mut ok = self.n <= self.cap && self.cap <= MAX_STORED;
        let mut i = 0;
        while i < MAX_STORED {
            if i < self.cap && i < self.n {
                ok = ok && self.inst_known(self.s[i].inst);
            }
            i += 1;
        }
        let mut h = 0;
        while h < N_INST {
            ok = ok && (!self.inst[h].owned || self.inst[h].known);
            h += 1;
        }
        ok
    }
    /// `inst[h].known` without indexing an array at a symbolic position (N_INST == 2)
    pub fn inst_known(&self, h: usize) -> bool {
        (h == 0 && self.inst[0].known) || (h == 1 && self.inst[1].known)
    }
    pub fn count(&self, f: impl Fn(&SampleSpec) -> bool) -> usize {
        let mut c = 0;
        let mut i = 0;
        while i < MAX_STORED {
            if i < self.cap && i < self.n && f(&self.s[i]) {
                c += 1;
            }
            i += 1;
        }
        c
    }
    /// every pair i < j of stored samples satisfies `f(s[i], s[j])`
    pub fn all_pairs(&self, f: impl Fn(&SampleSpec, &SampleSpec) -> bool) -> bool {
        let mut ok = true;
        let mut i = 0;
        while i < MAX_STORED {
            let mut j = i + 1;
            while j < MAX_STORED {
                if j < self.cap && j < self.n {
                    ok = ok && f(&self.s[i], &self.s[j]);
                }
                j += 1;
            }
            i += 1;
        }
        ok
    }
    /// every stored sample satisfies `f`
    pub fn all(&self, f: impl Fn(&SampleSpec) -> bool) -> bool {
        self.count(|s| !f(s)) == 0
    }
    /// number of stored samples, other than the one at index `skip` (MAX_STORED = none), satisfying `f`
    pub fn count_but(&self, skip: usize, f: impl Fn(&SampleSpec) -> bool) -> usize {
        let mut c = 0;
        let mut i = 0;
        while i < MAX_STORED {
            if i < self.cap && i < self.n && i != skip && f(&self.s[i]) {
                c += 1;
            }
            i += 1;
        }
        c
    }
    /// number of stored samples (any kind)
    pub fn total(&self) -> usize {
        self.n
    }
    /// number of stored samples of kind ALIVE (what the implementation counts against max_samples and depth)
    pub fn alive_total(&self) -> usize {
        self.count(|s| s.kind == ChangeKind::Alive)
    }
    pub fn inst_total(&self, h: usize) -> usize {
        self.count(|s| s.inst == h)
    }
    pub fn inst_alive(&self, h: usize) -> usize {
        self.count(|s| s.inst == h && s.kind == ChangeKind::Alive)
    }
    /// number of distinct instance handles that have at least one stored sample
    pub fn instances_with_samples(&self) -> usize {
        let mut c = 0;
        let mut h = 0;
        while h < N_INST {
            if self.inst_total(h) > 0 {
                c += 1;
            }
            h += 1;
        }
        c
    }
    /// index of the first stored sample satisfying `f` (storage order), or MAX_STORED
    pub fn first(&self, f: impl Fn(&SampleSpec) -> bool) -> usize {
        let mut r = MAX_STORED;
        let mut i = MAX_STORED;
        while i > 0 {
            i -= 1;
            if i < self.cap && i < self.n && f(&self.s[i]) {
                r = i;
            }
        }
        r
    }
}

/// Symbolic pre-state of the bounded family with exactly `n` stored samples (`n` is a *concrete*
/// number <= MAX_STORED chosen by the harness: a harness family enumerates n = 0, 1, 2, 3), everything
/// else symbolic, representation invariant assumed.
pub fn any_pre_state_td(n: usize, td: TimeDomain) -> PreState {
    let pre = PreState {
        cap: n,
        n,
        s: [any_sample_spec(0, td), any_sample_spec(1, td), any_sample_spec(2, td)],
        inst: [any_inst_spec(), any_inst_spec()],
    };
    kani::assume(pre.rep_ok());
    pre
}
pub fn any_pre_state(n: usize) -> PreState {
    any_pre_state_td(n, TimeDomain::Small)
}

/// Structure of a pre-state = everything that decides lengths of (and positions in) the real vectors.
/// Harnesses pass it as CONCRETE values: measured on this code, a symbolic list length or a symbolic
/// presence of an `instances` / `instance_ownership` entry doubles the formula and exhausts 12 GB, while
/// symbolic *values* (kinds, instance of each sample, timestamps, states, counts) cost nothing extra.
#[derive(Clone, Copy)]
pub struct Structure {
    /// number of stored samples
    pub n: usize,
    /// which instance handles are registered in `instances`
    pub known: [bool; N_INST],
    /// which instance handles have an `instance_ownership` entry
    pub owned: [bool; N_INST],
}

/// Both instances registered, no `instance_ownership` entry (with SHARED ownership the table is only
/// written by add_reader_change, never read for a decision).
pub fn plain(n: usize) -> Structure {
    Structure { n, known: [true, true], owned: [false, false] }
}

pub fn any_pre_state_st(st: &Structure, td: TimeDomain) -> PreState {
    let mut inst = [any_inst_spec(), any_inst_spec()];
    let mut h = 0;
    while h < N_INST {
        inst[h].known = st.known[h];
        inst[h].owned = st.owned[h];
        h += 1;
    }
    let pre = PreState {
        cap: st.n,
        n: st.n,
        s: [any_sample_spec(0, td), any_sample_spec(1, td), any_sample_spec(2, td)],
        inst,
    };
    kani::assume(pre.rep_ok());
    pre
}

pub fn make_sample(s: &SampleSpec, data: &Arc<[u8]>) -> ReaderSample {
    ReaderSample {
        kind: s.kind,
        writer_guid: writer_bytes(s.writer, s.tag),
        instance_handle: handle(s.inst),
        source_timestamp: s.ts,
        data_value: data.clone(),
        sample_state: s.sample_state,
        disposed_generation_count: s.dgc,
        no_writers_generation_count: s.nwgc,
    }
}

/// The REAL entity with the pre-state written into its public fields.
pub fn build_reader(qos: DataReaderQos, pre: &PreState) -> DataReaderEntity<()> {
    let mut r = DataReaderEntity::new(InstanceHandle::new([0xAA; 16]), qos, String::new(), ());
    r.enabled = true;
    // exactly one spare slot: CBMC models the buffer as a byte array and the memmove of Vec::remove /
    // Vec::insert at a symbolic index costs O(buffer bytes ^ 2) propositional variables
    r.sample_list = Vec::with_capacity(pre.n + 1);
    r.instances = Vec::with_capacity(N_INST);
    r.instance_ownership = Vec::with_capacity(N_INST);
    let data: Arc<[u8]> = Arc::from([0u8]);
    let mut i = 0;
    while i < MAX_STORED {
        if i < pre.cap && i < pre.n {
            r.sample_list.push(make_sample(&pre.s[i], &data));
        }
        i += 1;
    }
    core::mem::forget(data); // the shared payload outlives every sample (destructors are outside the claim)
    let mut h = 0;
    while h < N_INST {
        let x = &pre.inst[h];
        if x.known {
            r.instances.push(InstanceState::verif_from_parts(
                handle(h),
                x.view_state,
                x.instance_state,
                x.dgc,
                x.nwgc,
                x.last_rx,
            ));
        }
        if x.owned {
            r.instance_ownership.push(InstanceOwnership {
                instance_handle: handle(h),
                owner_handle: writer_bytes(x.owner, 0),
                last_received_time: x.own_last_rx,
            });
        }
        h += 1;
    }
    r
}

// ---------------------------------------------------------------------------------------------
// observation of the real object after the step
// ---------------------------------------------------------------------------------------------
#[derive(Clone, Copy)]
pub struct SampleView {
    pub kind: ChangeKind,
    pub inst: usize,
    pub writer: usize,
    pub ts: Option<Time>,
    pub sample_state: SampleStateKind,
    pub tag: u8,
}

pub const MAX_POST: usize = MAX_STORED + 1;

pub struct PostState {
    pub n: usize,
    pub s: [SampleView; MAX_POST],
}

/// Reads the real `sample_list` (at most MAX_POST entries; a longer list fails the assertion).
pub fn observe<T>(r: &DataReaderEntity<T>) -> PostState {
    let blank = SampleView {
        kind: ChangeKind::Alive,
        inst: 0,
        writer: 0,
        ts: None,
        sample_state: SampleStateKind::NotRead,
        tag: 0xFF,
    };
    let n = r.sample_list.len();
    assert!(n <= MAX_POST, "reader cache: one step adds at most one sample");
    let mut s = [blank; MAX_POST];
    let mut i = 0;
    while i < MAX_POST {
        if i < n {
            let x = &r.sample_list[i];
            s[i] = SampleView {
                kind: x.kind,
                inst: inst_index(&x.instance_handle),
                writer: writer_index(&x.writer_guid),
                ts: x.source_timestamp,
                sample_state: x.sample_state,
                tag: x.writer_guid[1],
            };
        }
        i += 1;
    }
    PostState { n, s }
}

impl PostState {
    pub fn count(&self, f: impl Fn(&SampleView) -> bool) -> usize {
        let mut c = 0;
        let mut i = 0;
        while i < MAX_POST {
            if i < self.n && f(&self.s[i]) {
                c += 1;
            }
            i += 1;
        }
        c
    }
    /// every pair i < j of stored samples satisfies `f(s[i], s[j])`
    pub fn all_pairs(&self, f: impl Fn(&SampleView, &SampleView) -> bool) -> bool {
        let mut ok = true;
        let mut i = 0;
        while i < MAX_POST {
            let mut j = i + 1;
            while j < MAX_POST {
                if j < self.n {
                    ok = ok && f(&self.s[i], &self.s[j]);
                }
                j += 1;
            }
            i += 1;
        }
        ok
    }
    pub fn alive_total(&self) -> usize {
        self.count(|s| s.kind == ChangeKind::Alive)
    }
    pub fn inst_total(&self, h: usize) -> usize {
        self.count(|s| s.inst == h)
    }
    pub fn inst_alive(&self, h: usize) -> usize {
        self.count(|s| s.inst == h && s.kind == ChangeKind::Alive)
    }
    pub fn instances_with_samples(&self) -> usize {
        let mut c = 0;
        let mut h = 0;
        while h < N_INST {
            if self.inst_total(h) > 0 {
                c += 1;
            }
            h += 1;
        }
        c
    }
    /// position of the sample with tag `tag`, or MAX_POST
    pub fn position_of(&self, tag: u8) -> usize {
        let mut r = MAX_POST;
        let mut i = MAX_POST;
        while i > 0 {
            i -= 1;
            if i < self.n && self.s[i].tag == tag {
                r = i;
            }
        }
        r
    }
    pub fn contains(&self, tag: u8) -> bool {
        self.position_of(tag) < MAX_POST
    }
    /// The stored pre-state samples other than `removed` (an index into the pre-state, MAX_STORED =
    /// none) are all still present, unchanged, in their pre-state relative order.  Written over
    /// concrete index pairs only (no array access at a symbolic position).
    pub fn keeps_all_but(&self, pre: &PreState, removed: usize) -> bool {
        let mut ok = true;
        let mut i = 0;
        while i < MAX_STORED {
            if i < pre.cap && i < pre.n && i != removed {
                // (a) present and unchanged
                let mut found = false;
                let mut q = 0;
                while q < MAX_POST {
                    if q < self.n && self.s[q].tag == pre.s[i].tag {
                        found = true;
                        ok = ok
                            && self.s[q].kind == pre.s[i].kind
                            && self.s[q].inst == pre.s[i].inst
                            && self.s[q].writer == pre.s[i].writer
                            && self.s[q].ts == pre.s[i].ts
                            && self.s[q].sample_state == pre.s[i].sample_state;
                        // (b) relative order: a later kept pre-state sample is not stored in front of it
                        let mut i2 = i + 1;
                        while i2 < MAX_STORED {
                            if i2 < pre.cap && i2 < pre.n && i2 != removed {
                                let mut q2 = 0;
                                while q2 < MAX_POST {
                                    if q2 <= q && q2 < self.n && self.s[q2].tag == pre.s[i2].tag {
                                        ok = false;
                                    }
                                    q2 += 1;
                                }
                            }
                            i2 += 1;
                        }
                    }
                    q += 1;
                }
                ok = ok && found;
            }
            i += 1;
        }
        ok
    }
    /// number of stored samples carrying NEW_TAG that equal the incoming change (kind, instance, timestamp)
    pub fn new_sample_matches(&self, c: &Incoming) -> usize {
        let (kind, inst, ts) = (c.kind, c.inst, c.ts);
        self.count(|s| s.tag == NEW_TAG && s.kind == kind && s.inst == inst && s.ts == ts)
    }
    /// number of stored samples carrying NEW_TAG
    pub fn new_samples(&self) -> usize {
        self.count(|s| s.tag == NEW_TAG)
    }
    /// the last stored sample carries NEW_TAG
    pub fn new_sample_is_last(&self) -> bool {
        let mut r = false;
        let mut q = 0;
        while q < MAX_POST {
            if q + 1 == self.n {
                r = self.s[q].tag == NEW_TAG;
            }
            q += 1;
        }
        r
    }
    /// the pre-state sample `i` (a possibly symbolic index; MAX_STORED = none) is no longer stored
    pub fn dropped(&self, pre: &PreState, i: usize) -> bool {
        let mut ok = true;
        let mut k = 0;
        while k < MAX_STORED {
            if k == i {
                ok = ok && !self.contains(pre.s[k].tag);
            }
            k += 1;
        }
        ok
    }
    /// sample_list is exactly the pre-state list (same samples, same order)
    pub fn unchanged(&self, pre: &PreState) -> bool {
        self.n == pre.n && self.keeps_all_but(pre, MAX_STORED)
    }
}

/// R1..R3 on the real object after the step.
pub fn rep_ok_real<T>(r: &DataReaderEntity<T>) -> bool {
    let mut ok = true;
    let ni = r.instances.len();
    let (mut known0, mut known1) = (0usize, 0usize);
    let mut i = 0;
    while i < N_INST + 1 {
        if i < ni {
            let h = inst_index(r.instances[i].handle());
            if h == 0 {
                known0 += 1;
            } else if h == 1 {
                known1 += 1;
            } else {
                ok = false;
            }
        }
        i += 1;
    }
    ok = ok && ni <= N_INST && known0 <= 1 && known1 <= 1;
    let ns = r.sample_list.len();
    let mut j = 0;
    while j < MAX_POST {
        if j < ns {
            let h = inst_index(&r.sample_list[j].instance_handle);
            ok = ok && ((h == 0 && known0 == 1) || (h == 1 && known1 == 1));
        }
        j += 1;
    }
    let no = r.instance_ownership.len();
    let (mut owned0, mut owned1) = (0usize, 0usize);
    let mut k = 0;
    while k < N_INST + 1 {
        if k < no {
            let h = inst_index(&r.instance_ownership[k].instance_handle);
            if h == 0 {
                owned0 += 1;
                ok = ok && known0 == 1;
            } else if h == 1 {
                owned1 += 1;
                ok = ok && known1 == 1;
            } else {
                ok = false;
            }
        }
        k += 1;
    }
    ok && no <= N_INST && owned0 <= 1 && owned1 <= 1
}

// ---------------------------------------------------------------------------------------------
// the incoming change and the one real step
// ---------------------------------------------------------------------------------------------
#[derive(Clone, Copy)]
pub struct Incoming {
    pub kind: ChangeKind,
    pub inst: usize,
    pub writer: usize,
    pub ts: Option<Time>,
    pub rx: Time,
}

pub fn any_incoming_td(td: TimeDomain) -> Incoming {
    Incoming {
        kind: any_change_kind(),
        inst: any_index(N_INST),
        writer: any_index(N_WRITERS),
        ts: any_opt_time(td),
        rx: any_small_time(),
    }
}
pub fn any_incoming() -> Incoming {
    any_incoming_td(TimeDomain::Small)
}

#[derive(Clone, Copy, PartialEq, Eq)]
pub enum StepResult {
    Added,
    NotAdded,
    Rejected(usize, SampleRejectedStatusKind),
    Error,
}

/// ONE real `DataReaderEntity::add_reader_change` with the incoming change (writer GUID tag NEW_TAG).
pub fn step<T>(r: &mut DataReaderEntity<T>, c: &Incoming) -> StepResult {
    let data: Arc<[u8]> = Arc::from([0u8]);
    core::mem::forget(data.clone()); // the payload is never freed (destructors are outside the claim)
    match r.add_reader_change(
        writer_guid(c.writer, NEW_TAG),
        data,
        c.kind,
        handle_bytes(c.inst),
        c.ts,
        c.rx,
    ) {
        Ok(AddChangeResult::Added) => StepResult::Added,
        Ok(AddChangeResult::NotAdded) => StepResult::NotAdded,
        Ok(AddChangeResult::Rejected(h, k)) => StepResult::Rejected(inst_index(&h), k),
        Err(e) => {
            core::mem::forget(e);
            StepResult::Error
        }
    }
}

pub fn zero_separation() -> DurationKind {
    DurationKind::Finite(Duration::new(0, 0))
}

// ---------------------------------------------------------------------------------------------
// cache-relevant QoS of one harness run and the history/limit invariants over the shadow
// ---------------------------------------------------------------------------------------------
#[derive(Clone, Copy)]
pub struct Cfg {
    /// 0 = KEEP_ALL, d >= 1 = KEEP_LAST(d)
    pub depth: usize,
    pub ms: Length,
    pub mi: Length,
    pub mspi: Length,
    pub order: DestinationOrderQosPolicyKind,
    pub sep: DurationKind,
}

/// Which history kinds a harness covers.  `KeepAll` is a CONCRETE QoS value: CBMC then prunes the
/// KEEP_LAST eviction (`Vec::remove` at a symbolic index), which more than halves the formula.
#[derive(Clone, Copy, PartialEq, Eq)]
pub enum Hist {
    KeepAll,
    /// KEEP_LAST(depth), depth symbolic in 1..=3
    KeepLast,
}

/// each resource limit in {1,2,3,unlimited}; the QoS is assumed consistent
/// (`DataReaderQos::is_consistent`, the real predicate) when `qos()` is called.
pub fn any_cfg(hist: Hist, order: DestinationOrderQosPolicyKind, sep: DurationKind) -> Cfg {
    let depth: usize = match hist {
        Hist::KeepAll => 0,
        Hist::KeepLast => {
            let d: usize = kani::any();
            kani::assume(d >= 1 && d <= 3);
            d
        }
    };
    Cfg { depth, ms: any_limit(), mi: any_limit(), mspi: any_limit(), order, sep }
}

impl Cfg {
    pub fn keep_last(&self) -> bool {
        self.depth >= 1
    }
    pub fn qos(&self) -> DataReaderQos {
        let history = if self.depth == 0 {
            HistoryQosPolicyKind::KeepAll
        } else {
            HistoryQosPolicyKind::KeepLast(self.depth as u32)
        };
        reader_qos(history, self.ms, self.mi, self.mspi, self.order, self.sep)
    }
    /// History invariant the implementation maintains: per instance at most `depth` stored ALIVE samples.
    pub fn history_inv(&self, pre: &PreState) -> bool {
        !self.keep_last() || (pre.inst_alive(0) <= self.depth && pre.inst_alive(1) <= self.depth)
    }
    /// Resource-limit invariant in the implementation's own counting convention: max_samples counts the
    /// stored samples of kind ALIVE, max_samples_per_instance every stored sample of the instance,
    /// max_instances the instance handles that have at least one stored sample.
    pub fn limits_inv(&self, pre: &PreState) -> bool {
        within_limit(pre.alive_total(), self.ms)
            && within_limit(pre.instances_with_samples(), self.mi)
            && within_limit(pre.inst_total(0), self.mspi)
            && within_limit(pre.inst_total(1), self.mspi)
    }
    pub fn history_inv_post(&self, post: &PostState) -> bool {
        !self.keep_last() || (post.inst_alive(0) <= self.depth && post.inst_alive(1) <= self.depth)
    }
    pub fn limits_inv_post(&self, post: &PostState) -> bool {
        within_limit(post.alive_total(), self.ms)
            && within_limit(post.instances_with_samples(), self.mi)
            && within_limit(post.inst_total(0), self.mspi)
            && within_limit(post.inst_total(1), self.mspi)
    }
    /// KEEP_LAST and the instance of the incoming change already holds `depth` ALIVE samples: the
    /// implementation evicts the oldest (first stored) ALIVE sample of that instance.
    pub fn replacement_case(&self, pre: &PreState, c: &Incoming) -> bool {
        self.keep_last() && pre.inst_alive(c.inst) == self.depth
    }
    /// index (in the pre-state) of the sample KEEP_LAST evicts for this change, MAX_STORED = none
    pub fn evicted(&self, pre: &PreState, c: &Incoming) -> usize {
        if self.replacement_case(pre, c) {
            let inst = c.inst;
            pre.first(|s| s.inst == inst && s.kind == ChangeKind::Alive)
        } else {
            MAX_STORED
        }
    }
    /// the rejection reason names a resource limit that is reached in the pre-state
    pub fn rejection_justified(&self, pre: &PreState, c: &Incoming, reason: SampleRejectedStatusKind) -> bool {
        match reason {
            SampleRejectedStatusKind::RejectedBySamplesLimit => limit_reached(pre.alive_total(), self.ms),
            SampleRejectedStatusKind::RejectedByInstancesLimit => {
                pre.inst_total(c.inst) == 0 && limit_reached(pre.instances_with_samples(), self.mi)
            }
            SampleRejectedStatusKind::RejectedBySamplesPerInstanceLimit => {
                limit_reached(pre.inst_total(c.inst), self.mspi)
            }
            SampleRejectedStatusKind::NotRejected => false,
        }
    }
}

/// Pre-state + incoming change of one run: structure concrete, values symbolic, representation,
/// history and resource-limit invariants assumed.
pub fn any_run(st: &Structure, cfg: &Cfg, td: TimeDomain) -> (PreState, Incoming) {
    let pre = any_pre_state_st(st, td);
    kani::assume(cfg.history_inv(&pre));
    kani::assume(cfg.limits_inv(&pre));
    (pre, any_incoming_td(td))
}
