// Shared support: directly constructed symbolic pre-states of the DataReader sample cache
// (`DataReaderEntity<()>`, pattern S of DESIGN.md: ONE real operation from a constructed pre-state).
//
// Bounded family: <= 3 stored samples over <= 2 instance handles and <= 2 writer guids; change kind,
// source timestamp, sample state and generation counts of every sample symbolic; the `instances` table
// (via the guarded hook `InstanceState::verif_from_parts`) and `instance_ownership` symbolic and
// consistent with the sample list.  The *shadow* (`PreState`) is a plain-value copy of what was put
// into the real object, so oracles can be written over integers instead of over the real vectors.
//
// Representation invariant of the reader cache (derived from data_reader_entity.rs, see `rep_ok`):
//   R1  `instances` holds pairwise distinct handles (entries are only ever pushed after a lookup miss
//       and never removed);
//   R2  every stored sample's instance handle is in `instances` (add_reader_change registers the
//       instance before it stores a sample; `instances` never shrinks);
//   R3  `instance_ownership` holds pairwise distinct instance handles, all registered in `instances`
//       (pushed only after a lookup miss, removed by dispose/unregister/deadline).
// Every stored sample carries a distinct one-byte payload (`tag`) so that a post-state can be compared
// with the pre-state sample by sample; the incoming change uses `NEW_TAG`.
//
// API is shared with other harness families (C20/C22/C23/C24): extend, do not change signatures.
use alloc::string::String;
use alloc::sync::Arc;
use alloc::vec::Vec;

use crate::dcps::dcps_domain_participant::data_reader_entity::{
    AddChangeResult, DataReaderEntity, InstanceOwnership, InstanceState, ReaderSample,
};
use crate::infrastructure::instance::InstanceHandle;
use crate::infrastructure::qos::DataReaderQos;
use crate::infrastructure::qos_policy::{
    DestinationOrderQosPolicyKind, HistoryQosPolicyKind, Length,
};
use crate::infrastructure::sample_info::{InstanceStateKind, SampleStateKind, ViewStateKind};
use crate::infrastructure::status::SampleRejectedStatusKind;
use crate::infrastructure::time::{Duration, DurationKind, Time};
use crate::transport::types::{ChangeKind, Guid};

pub const MAX_STORED: usize = 3;
pub const N_INST: usize = 2;
pub const N_WRITERS: usize = 2;
/// payload byte of the incoming change (stored samples use 0, 1, 2)
pub const NEW_TAG: u8 = 9;

// ---------------------------------------------------------------------------------------------
// concrete name spaces: instance handles and writer guids differ in byte 0 only (1 + index)
// ---------------------------------------------------------------------------------------------
pub fn handle_bytes(i: usize) -> [u8; 16] {
    let mut b = [0u8; 16];
    b[0] = 1 + i as u8;
    b
}
pub fn handle(i: usize) -> InstanceHandle {
    InstanceHandle::new(handle_bytes(i))
}
pub fn inst_index(h: &InstanceHandle) -> usize {
    (<[u8; 16]>::from(*h)[0] as usize).wrapping_sub(1)
}
pub fn writer_bytes(i: usize) -> [u8; 16] {
    let mut b = [0u8; 16];
    b[0] = 1 + i as u8;
    b[15] = 0x02; // user defined writer with key
    b
}
pub fn writer_guid(i: usize) -> Guid {
    Guid::from(writer_bytes(i))
}
pub fn writer_index(g: &[u8; 16]) -> usize {
    (g[0] as usize).wrapping_sub(1)
}

// ---------------------------------------------------------------------------------------------
// symbolic scalars
// ---------------------------------------------------------------------------------------------
pub fn any_index(n: usize) -> usize {
    let i: usize = kani::any();
    kani::assume(i < n);
    i
}
pub fn any_change_kind() -> ChangeKind {
    let k: u8 = kani::any();
    kani::assume(k < 5);
    match k {
        0 => ChangeKind::Alive,
        1 => ChangeKind::AliveFiltered,
        2 => ChangeKind::NotAliveDisposed,
        3 => ChangeKind::NotAliveUnregistered,
        _ => ChangeKind::NotAliveDisposedUnregistered,
    }
}
pub fn is_not_alive_kind(k: ChangeKind) -> bool {
    matches!(
        k,
        ChangeKind::NotAliveDisposed
            | ChangeKind::NotAliveUnregistered
            | ChangeKind::NotAliveDisposedUnregistered
    )
}
/// Time from a small range: sec in 0..4, nanosec in {0, 500_000_000} (the cache only compares
/// timestamps; the time-based filter subtracts them with the real Duration arithmetic).
pub fn any_small_time() -> Time {
    let sec: i32 = kani::any();
    kani::assume(sec >= 0 && sec < 4);
    let half: bool = kani::any();
    Time::new(sec, if half { 500_000_000 } else { 0 })
}
pub fn any_opt_small_time() -> Option<Time> {
    if kani::any() {
        Some(any_small_time())
    } else {
        None
    }
}
pub fn any_sample_state() -> SampleStateKind {
    if kani::any() {
        SampleStateKind::Read
    } else {
        SampleStateKind::NotRead
    }
}
pub fn any_view_state() -> ViewStateKind {
    if kani::any() {
        ViewStateKind::New
    } else {
        ViewStateKind::NotNew
    }
}
pub fn any_instance_state() -> InstanceStateKind {
    let k: u8 = kani::any();
    kani::assume(k < 3);
    match k {
        0 => InstanceStateKind::Alive,
        1 => InstanceStateKind::NotAliveDisposed,
        _ => InstanceStateKind::NotAliveNoWriters,
    }
}
/// resource limit in {1, 2, 3, unlimited}
pub fn any_limit() -> Length {
    let v: i32 = kani::any();
    kani::assume(v >= 0 && v <= 3);
    if v == 0 {
        Length::Unlimited
    } else {
        Length::Limited(v)
    }
}
pub fn limit_reached(count: usize, l: Length) -> bool {
    match l {
        Length::Unlimited => false,
        Length::Limited(v) => count >= v as usize,
    }
}
pub fn within_limit(count: usize, l: Length) -> bool {
    match l {
        Length::Unlimited => true,
        Length::Limited(v) => count <= v as usize,
    }
}
/// history kind: KEEP_ALL or KEEP_LAST(depth in 1..=3)
pub fn any_history() -> HistoryQosPolicyKind {
    let d: u32 = kani::any();
    kani::assume(d <= 3);
    if d == 0 {
        HistoryQosPolicyKind::KeepAll
    } else {
        HistoryQosPolicyKind::KeepLast(d)
    }
}
pub fn any_destination_order() -> DestinationOrderQosPolicyKind {
    if kani::any() {
        DestinationOrderQosPolicyKind::BySourceTimestamp
    } else {
        DestinationOrderQosPolicyKind::ByReceptionTimestamp
    }
}

/// Default reader QoS with the cache-relevant policies replaced.  The caller decides which of them
/// are symbolic.  `DataReaderQos::is_consistent` (the real validity predicate applied by
/// create_datareader / set_qos) is assumed: an inconsistent QoS is not reachable on an entity.
pub fn reader_qos(
    history: HistoryQosPolicyKind,
    max_samples: Length,
    max_instances: Length,
    max_samples_per_instance: Length,
    destination_order: DestinationOrderQosPolicyKind,
    minimum_separation: DurationKind,
) -> DataReaderQos {
    let mut qos = DataReaderQos::const_default();
    qos.history.kind = history;
    qos.resource_limits.max_samples = max_samples;
    qos.resource_limits.max_instances = max_instances;
    qos.resource_limits.max_samples_per_instance = max_samples_per_instance;
    qos.destination_order.kind = destination_order;
    qos.time_based_filter.minimum_separation = minimum_separation;
    kani::assume(qos.is_consistent().is_ok());
    qos
}

// ---------------------------------------------------------------------------------------------
// shadow of the pre-state
// ---------------------------------------------------------------------------------------------
#[derive(Clone, Copy)]
pub struct SampleSpec {
    pub kind: ChangeKind,
    pub inst: usize,
    pub writer: usize,
    pub ts: Option<Time>,
    pub sample_state: SampleStateKind,
    pub dgc: i32,
    pub nwgc: i32,
    pub tag: u8,
}

#[derive(Clone, Copy)]
pub struct InstSpec {
    /// the handle has an entry in `instances`
    pub known: bool,
    pub view_state: ViewStateKind,
    pub instance_state: InstanceStateKind,
    pub dgc: i32,
    pub nwgc: i32,
    pub last_rx: Time,
    /// the handle has an entry in `instance_ownership`
    pub owned: bool,
    pub owner: usize,
    pub own_last_rx: Time,
}

#[derive(Clone, Copy)]
pub struct PreState {
    pub n: usize,
    pub s: [SampleSpec; MAX_STORED],
    pub inst: [InstSpec; N_INST],
}

pub fn any_sample_spec(tag: u8) -> SampleSpec {
    let dgc: i32 = kani::any();
    let nwgc: i32 = kani::any();
    kani::assume(dgc >= 0 && dgc <= 2 && nwgc >= 0 && nwgc <= 2);
    SampleSpec {
        kind: any_change_kind(),
        inst: any_index(N_INST),
        writer: any_index(N_WRITERS),
        ts: any_opt_small_time(),
        sample_state: any_sample_state(),
        dgc,
        nwgc,
        tag,
    }
}

pub fn any_inst_spec() -> InstSpec {
    let dgc: i32 = kani::any();
    let nwgc: i32 = kani::any();
    kani::assume(dgc >= 0 && dgc <= 2 && nwgc >= 0 && nwgc <= 2);
    InstSpec {
        known: kani::any(),
        view_state: any_view_state(),
        instance_state: any_instance_state(),
        dgc,
        nwgc,
        last_rx: any_small_time(),
        owned: kani::any(),
        owner: any_index(N_WRITERS),
        own_last_rx: any_small_time(),
    }
}

impl PreState {
    /// R1..R3 on the shadow (R1 and the distinctness part of R3 hold by construction: one optional
    /// entry per handle).
    pub fn rep_ok(&self) -> bool {
        let mut ok = self.n <= MAX_STORED;
        let mut i = 0;
        while i < MAX_STORED {
            if i < self.n {
                ok = ok && self.inst[self.s[i].inst].known;
            }
            i += 1;
        }
        let mut h = 0;
        while h < N_INST {
            ok = ok && (!self.inst[h].owned || self.inst[h].known);
            h += 1;
        }
        ok
    }
    pub fn count(&self, f: impl Fn(&SampleSpec) -> bool) -> usize {
        let mut c = 0;
        let mut i = 0;
        while i < MAX_STORED {
            if i < self.n && f(&self.s[i]) {
                c += 1;
            }
            i += 1;
        }
        c
    }
    /// number of stored samples (any kind)
    pub fn total(&self) -> usize {
        self.n
    }
    /// number of stored samples of kind ALIVE (what the implementation counts against max_samples and depth)
    pub fn alive_total(&self) -> usize {
        self.count(|s| s.kind == ChangeKind::Alive)
    }
    pub fn inst_total(&self, h: usize) -> usize {
        self.count(|s| s.inst == h)
    }
    pub fn inst_alive(&self, h: usize) -> usize {
        self.count(|s| s.inst == h && s.kind == ChangeKind::Alive)
    }
    /// number of distinct instance handles that have at least one stored sample
    pub fn instances_with_samples(&self) -> usize {
        let mut c = 0;
        let mut h = 0;
        while h < N_INST {
            if self.inst_total(h) > 0 {
                c += 1;
            }
            h += 1;
        }
        c
    }
    /// index of the first stored sample satisfying `f` (storage order), or MAX_STORED
    pub fn first(&self, f: impl Fn(&SampleSpec) -> bool) -> usize {
        let mut r = MAX_STORED;
        let mut i = MAX_STORED;
        while i > 0 {
            i -= 1;
            if i < self.n && f(&self.s[i]) {
                r = i;
            }
        }
        r
    }
}

/// Fully symbolic pre-state of the bounded family, representation invariant assumed.
pub fn any_pre_state() -> PreState {
    let n: usize = kani::any();
    kani::assume(n <= MAX_STORED);
    let pre = PreState {
        n,
        s: [any_sample_spec(0), any_sample_spec(1), any_sample_spec(2)],
        inst: [any_inst_spec(), any_inst_spec()],
    };
    kani::assume(pre.rep_ok());
    pre
}

pub fn make_sample(s: &SampleSpec) -> ReaderSample {
    ReaderSample {
        kind: s.kind,
        writer_guid: writer_bytes(s.writer),
        instance_handle: handle(s.inst),
        source_timestamp: s.ts,
        data_value: Arc::from([s.tag]),
        sample_state: s.sample_state,
        disposed_generation_count: s.dgc,
        no_writers_generation_count: s.nwgc,
    }
}

/// The REAL entity with the pre-state written into its public fields.
pub fn build_reader(qos: DataReaderQos, pre: &PreState) -> DataReaderEntity<()> {
    let mut r = DataReaderEntity::new(InstanceHandle::new([0xAA; 16]), qos, String::new(), ());
    r.enabled = true;
    let mut i = 0;
    while i < MAX_STORED {
        if i < pre.n {
            r.sample_list.push(make_sample(&pre.s[i]));
        }
        i += 1;
    }
    let mut h = 0;
    while h < N_INST {
        let x = &pre.inst[h];
        if x.known {
            r.instances.push(InstanceState::verif_from_parts(
                handle(h),
                x.view_state,
                x.instance_state,
                x.dgc,
                x.nwgc,
                x.last_rx,
            ));
        }
        if x.owned {
            r.instance_ownership.push(InstanceOwnership {
                instance_handle: handle(h),
                owner_handle: writer_bytes(x.owner),
                last_received_time: x.own_last_rx,
            });
        }
        h += 1;
    }
    r
}

// ---------------------------------------------------------------------------------------------
// observation of the real object after the step
// ---------------------------------------------------------------------------------------------
#[derive(Clone, Copy)]
pub struct SampleView {
    pub kind: ChangeKind,
    pub inst: usize,
    pub writer: usize,
    pub ts: Option<Time>,
    pub sample_state: SampleStateKind,
    pub tag: u8,
}

pub const MAX_POST: usize = MAX_STORED + 1;

pub struct PostState {
    pub n: usize,
    pub s: [SampleView; MAX_POST],
}

/// Reads the real `sample_list` (at most MAX_POST entries; a longer list fails the assertion).
pub fn observe<T>(r: &DataReaderEntity<T>) -> PostState {
    let blank = SampleView {
        kind: ChangeKind::Alive,
        inst: 0,
        writer: 0,
        ts: None,
        sample_state: SampleStateKind::NotRead,
        tag: 0xFF,
    };
    let n = r.sample_list.len();
    assert!(n <= MAX_POST, "reader cache: one step adds at most one sample");
    let mut s = [blank; MAX_POST];
    let mut i = 0;
    while i < MAX_POST {
        if i < n {
            let x = &r.sample_list[i];
            s[i] = SampleView {
                kind: x.kind,
                inst: inst_index(&x.instance_handle),
                writer: writer_index(&x.writer_guid),
                ts: x.source_timestamp,
                sample_state: x.sample_state,
                tag: if x.data_value.len() == 1 { x.data_value[0] } else { 0xFE },
            };
        }
        i += 1;
    }
    PostState { n, s }
}

impl PostState {
    pub fn count(&self, f: impl Fn(&SampleView) -> bool) -> usize {
        let mut c = 0;
        let mut i = 0;
        while i < MAX_POST {
            if i < self.n && f(&self.s[i]) {
                c += 1;
            }
            i += 1;
        }
        c
    }
    pub fn alive_total(&self) -> usize {
        self.count(|s| s.kind == ChangeKind::Alive)
    }
    pub fn inst_total(&self, h: usize) -> usize {
        self.count(|s| s.inst == h)
    }
    pub fn inst_alive(&self, h: usize) -> usize {
        self.count(|s| s.inst == h && s.kind == ChangeKind::Alive)
    }
    pub fn instances_with_samples(&self) -> usize {
        let mut c = 0;
        let mut h = 0;
        while h < N_INST {
            if self.inst_total(h) > 0 {
                c += 1;
            }
            h += 1;
        }
        c
    }
    /// position of the sample with payload `tag`, or MAX_POST
    pub fn position_of(&self, tag: u8) -> usize {
        let mut r = MAX_POST;
        let mut i = MAX_POST;
        while i > 0 {
            i -= 1;
            if i < self.n && self.s[i].tag == tag {
                r = i;
            }
        }
        r
    }
    pub fn contains(&self, tag: u8) -> bool {
        self.position_of(tag) < MAX_POST
    }
    /// The stored pre-state samples other than `removed` (an index into the pre-state, MAX_STORED =
    /// none) are all still present, unchanged, in their pre-state relative order.
    pub fn keeps_all_but(&self, pre: &PreState, removed: usize) -> bool {
        let mut ok = true;
        let mut last = 0usize; // 1 + position of the previous kept sample
        let mut i = 0;
        while i < MAX_STORED {
            if i < pre.n && i != removed {
                let p = self.position_of(pre.s[i].tag);
                ok = ok
                    && p < MAX_POST
                    && p + 1 > last
                    && self.s[p].kind == pre.s[i].kind
                    && self.s[p].inst == pre.s[i].inst
                    && self.s[p].writer == pre.s[i].writer
                    && self.s[p].ts == pre.s[i].ts
                    && self.s[p].sample_state == pre.s[i].sample_state;
                if p < MAX_POST {
                    last = p + 1;
                }
            }
            i += 1;
        }
        ok
    }
    /// sample_list is exactly the pre-state list (same samples, same order)
    pub fn unchanged(&self, pre: &PreState) -> bool {
        self.n == pre.n && self.keeps_all_but(pre, MAX_STORED)
    }
}

/// R1..R3 on the real object after the step.
pub fn rep_ok_real<T>(r: &DataReaderEntity<T>) -> bool {
    let mut ok = true;
    let ni = r.instances.len();
    let mut known = [0usize; N_INST];
    let mut i = 0;
    while i < N_INST + 1 {
        if i < ni {
            let h = inst_index(r.instances[i].handle());
            if h < N_INST {
                known[h] += 1;
            } else {
                ok = false;
            }
        }
        i += 1;
    }
    ok = ok && ni <= N_INST && known[0] <= 1 && known[1] <= 1;
    let ns = r.sample_list.len();
    let mut j = 0;
    while j < MAX_POST {
        if j < ns {
            let h = inst_index(&r.sample_list[j].instance_handle);
            ok = ok && h < N_INST && known[h] == 1;
        }
        j += 1;
    }
    let no = r.instance_ownership.len();
    let mut owned = [0usize; N_INST];
    let mut k = 0;
    while k < N_INST + 1 {
        if k < no {
            let h = inst_index(&r.instance_ownership[k].instance_handle);
            if h < N_INST {
                owned[h] += 1;
                ok = ok && known[h] == 1;
            } else {
                ok = false;
            }
        }
        k += 1;
    }
    ok && no <= N_INST && owned[0] <= 1 && owned[1] <= 1
}

// ---------------------------------------------------------------------------------------------
// the incoming change and the one real step
// ---------------------------------------------------------------------------------------------
#[derive(Clone, Copy)]
pub struct Incoming {
    pub kind: ChangeKind,
    pub inst: usize,
    pub writer: usize,
    pub ts: Option<Time>,
    pub rx: Time,
}

pub fn any_incoming() -> Incoming {
    Incoming {
        kind: any_change_kind(),
        inst: any_index(N_INST),
        writer: any_index(N_WRITERS),
        ts: any_opt_small_time(),
        rx: any_small_time(),
    }
}

#[derive(Clone, Copy, PartialEq, Eq)]
pub enum StepResult {
    Added,
    NotAdded,
    Rejected(usize, SampleRejectedStatusKind),
    Error,
}

/// ONE real `DataReaderEntity::add_reader_change` with the incoming change (payload = [NEW_TAG]).
pub fn step<T>(r: &mut DataReaderEntity<T>, c: &Incoming) -> StepResult {
    match r.add_reader_change(
        writer_guid(c.writer),
        Arc::from([NEW_TAG]),
        c.kind,
        handle_bytes(c.inst),
        c.ts,
        c.rx,
    ) {
        Ok(AddChangeResult::Added) => StepResult::Added,
        Ok(AddChangeResult::NotAdded) => StepResult::NotAdded,
        Ok(AddChangeResult::Rejected(h, k)) => StepResult::Rejected(inst_index(&h), k),
        Err(e) => {
            core::mem::forget(e);
            StepResult::Error
        }
    }
}

pub fn zero_separation() -> DurationKind {
    DurationKind::Finite(Duration::new(0, 0))
}
