// Shared support for the participant-level discovery / entity-tree harnesses (C17, C36, C16, C03).
//
// Everything here only BUILDS pre-states for a real `DcpsDomainParticipant` (see support_participant.rs for
// the environment: symbolic clock, capturing transport, dropped listener tasks) or cuts out code that has to
// execute `DynamicData` (SEDP dispose announcements). No protocol logic is re-implemented.
use alloc::{string::String, vec::Vec};

use super::support_participant as sp;
use crate::builtin_topics::{BuiltInTopicKey, ParticipantBuiltinTopicData, PublicationBuiltinTopicData, SubscriptionBuiltinTopicData};
use crate::dcps::data_representation_builtin_endpoints::spdp_discovered_participant_data::{
    BuiltinEndpointQos, BuiltinEndpointSet, ParticipantProxy, SpdpDiscoveredParticipantData,
};
use crate::dcps::dcps_domain_participant::participant_entity::{DcpsDomainParticipant, DiscoveredParticipantInfo};
use crate::dcps::dcps_domain_participant::user_defined_data_reader::UserDefinedDataReader;
use crate::dcps::dcps_domain_participant::user_defined_data_writer::UserDefinedDataWriter;
use crate::infrastructure::instance::InstanceHandle;
use crate::infrastructure::qos::{DataReaderQos, DataWriterQos, QosKind};
use crate::infrastructure::time::{Duration, Time};
use crate::rtps::stateful_reader::RtpsStatefulReader;
use crate::rtps::stateful_writer::RtpsStatefulWriter;
use crate::rtps::types::{PROTOCOLVERSION, VENDOR_ID_S2E};
use crate::runtime::DdsRuntime;
use crate::transport::types::{
    DurabilityKind, EntityId, Guid, GuidPrefix, ReaderProxy, ReliabilityKind, WriterProxy, ENTITYID_PARTICIPANT,
    ENTITYID_UNKNOWN, USER_DEFINED_READER_NO_KEY, USER_DEFINED_WRITER_NO_KEY,
};

pub fn rt(now: Time) -> sp::VRuntime {
    sp::VRuntime { now }
}
pub fn rt1() -> sp::VRuntime {
    sp::VRuntime { now: Time::new(1, 0) }
}

// Any normalized Duration / Time (nanosec < 10^9): what Duration::new / Time::new and every Add/Sub produce (C14).
pub fn any_duration() -> Duration {
    let sec: i32 = kani::any();
    let ns: u32 = kani::any();
    kani::assume(ns < 1_000_000_000);
    Duration::new(sec, ns)
}
pub fn any_time() -> Time {
    let sec: i32 = kani::any();
    let ns: u32 = kani::any();
    kani::assume(ns < 1_000_000_000);
    Time::new(sec, ns)
}

/// Reference oracle (DDS: "elapsed time since the last communication exceeds the lease duration"), written
/// without the repository's Sub/Ord implementations and without 64-bit multiplication:
/// (now - last) > lease over (seconds, nanoseconds) pairs, for 0 <= last <= now and lease >= 0.
pub fn lease_expired(now: Time, last: Time, lease: Duration) -> bool {
    let (ns, ls) = (now.sec() as i64, last.sec() as i64);
    let (nn, ln) = (now.nanosec() as i64, last.nanosec() as i64);
    let (esec, ensec) = if nn >= ln { (ns - ls, nn - ln) } else { (ns - ls - 1, nn - ln + 1_000_000_000) };
    let (dsec, dnsec) = (lease.sec() as i64, lease.nanosec() as i64);
    esec > dsec || (esec == dsec && ensec > dnsec)
}

/// GUID prefix / participant key of remote participant number `i` (prefix bytes all `0x40 + i`).
pub fn remote_prefix(i: u8) -> GuidPrefix {
    [0x40 + i; 12]
}
pub fn remote_participant_key(i: u8) -> [u8; 16] {
    Guid::new(remote_prefix(i), ENTITYID_PARTICIPANT).into()
}
pub fn remote_participant_handle(i: u8) -> InstanceHandle {
    InstanceHandle::new(remote_participant_key(i))
}

/// The entry `add_discovered_participant` stores for remote participant `i`.
pub fn discovered(i: u8, lease: Duration, last: Time) -> DiscoveredParticipantInfo {
    DiscoveredParticipantInfo {
        dds_participant_data: ParticipantBuiltinTopicData {
            key: BuiltInTopicKey { value: remote_participant_key(i) },
            user_data: Default::default(),
        },
        guid_prefix: remote_prefix(i),
        default_unicast_locator_list: Vec::new(),
        default_multicast_locator_list: Vec::new(),
        lease_duration: lease,
        last_communication_timestamp: last,
    }
}

/// The value `SpdpDiscoveredParticipantData::from_bytes` yields for an SPDP announcement of remote
/// participant `i` (constructed directly: the decoder runs through DynamicData / ParameterList code).
pub fn spdp(i: u8, domain_id: Option<i32>, domain_tag: String, endpoints: u32, lease: Duration) -> SpdpDiscoveredParticipantData {
    SpdpDiscoveredParticipantData {
        dds_participant_data: ParticipantBuiltinTopicData {
            key: BuiltInTopicKey { value: remote_participant_key(i) },
            user_data: Default::default(),
        },
        participant_proxy: ParticipantProxy {
            domain_id,
            domain_tag,
            protocol_version: PROTOCOLVERSION,
            guid_prefix: remote_prefix(i),
            vendor_id: VENDOR_ID_S2E,
            expects_inline_qos: false,
            metatraffic_unicast_locator_list: Vec::new(),
            metatraffic_multicast_locator_list: Vec::new(),
            default_unicast_locator_list: Vec::new(),
            default_multicast_locator_list: Vec::new(),
            available_builtin_endpoints: BuiltinEndpointSet(endpoints),
            manual_liveliness_count: 0,
            builtin_endpoint_qos: BuiltinEndpointQos::default(),
        },
        lease_duration: lease,
        discovered_participant_list: Vec::new(),
    }
}
pub fn all_builtin_endpoints() -> u32 {
    BuiltinEndpointSet::default().0
}

/// A participant like `support_participant::participant` but with a caller-chosen domain tag.
pub fn participant_with_tag(capture: &sp::Capture, domain_id: i32, tag: String) -> DcpsDomainParticipant {
    DcpsDomainParticipant::new(
        domain_id,
        tag,
        sp::PREFIX,
        crate::infrastructure::qos::DomainParticipantQos::default(),
        None,
        sp::mask_from_bits(0),
        sp::transport(capture, 1344),
        sp::dcps_sender(),
        core::time::Duration::from_secs(5),
    )
}

// ---- entity tree -------------------------------------------------------------------------------------

pub fn new_publisher(p: &mut DcpsDomainParticipant) -> InstanceHandle {
    sp::must_ok!(
        p.create_user_defined_publisher(QosKind::Default, None, sp::mask_from_bits(0), &rt1()),
        "harness: publisher creation must succeed"
    )
}
pub fn new_subscriber(p: &mut DcpsDomainParticipant) -> InstanceHandle {
    sp::must_ok!(
        p.create_user_defined_subscriber(QosKind::Default, None, sp::mask_from_bits(0), &rt1()),
        "harness: subscriber creation must succeed"
    )
}
pub fn new_topic(p: &mut DcpsDomainParticipant, name: &str) -> InstanceHandle {
    sp::must_ok!(
        p.create_topic(
            String::from(name),
            String::from("T"),
            QosKind::Default,
            None,
            sp::mask_from_bits(0),
            <crate::infrastructure::time::Duration as crate::xtypes::type_support::Type>::TYPE,
            &rt1(),
        ),
        "harness: topic creation must succeed"
    )
}

// ---- bottom-up fixtures --------------------------------------------------------------------------------------
// Entities are built as LOCALS (all Vec headers are constants for symbolic execution) and only then moved into their
// parent's list: a push into a Vec that already lives inside a heap-stored entity reads a symbolic capacity, and symbolic
// execution then explores `realloc` with a symbolic size (measured: > 10 GB for one matched entry).

/// Handle `create_user_defined_publisher` gives publisher number `c` (participant_methods.rs).
pub fn publisher_handle(c: u8) -> InstanceHandle {
    InstanceHandle::new(Guid::new(sp::PREFIX, EntityId::new([c, 0, 0], crate::transport::types::USER_DEFINED_WRITER_GROUP)).into())
}
pub fn subscriber_handle(c: u8) -> InstanceHandle {
    InstanceHandle::new(Guid::new(sp::PREFIX, EntityId::new([c, 0, 0], crate::transport::types::USER_DEFINED_READER_GROUP)).into())
}

/// The enabled data writer `create_data_writer(topic, QosKind::Default, no listener)` + `enable_data_writer` produce
/// as writer number `n` of publisher number `pub_byte` (publisher_methods.rs), as a local value.
pub fn make_writer(pub_byte: u8, n: u16, topic: &str, qos: DataWriterQos) -> UserDefinedDataWriter {
    let guid = writer_guid(pub_byte, n);
    let mut w = UserDefinedDataWriter::new(
        InstanceHandle::new(guid.into()),
        RtpsStatefulWriter::new(guid, 1344),
        String::from(topic),
        None,
        sp::mask_from_bits(0),
        qos,
    );
    w.writer.enabled = true;
    w
}
pub fn make_reader(sub_byte: u8, n: u16, topic: &str, qos: DataReaderQos) -> UserDefinedDataReader {
    let guid = reader_guid(sub_byte, n);
    let rel = match qos.reliability.kind {
        crate::infrastructure::qos_policy::ReliabilityQosPolicyKind::BestEffort => ReliabilityKind::BestEffort,
        crate::infrastructure::qos_policy::ReliabilityQosPolicyKind::Reliable => ReliabilityKind::Reliable,
    };
    let mut r = UserDefinedDataReader::new(
        InstanceHandle::new(guid.into()),
        qos,
        String::from(topic),
        None,
        sp::mask_from_bits(0),
        RtpsStatefulReader::new(guid, rel),
    );
    r.reader.enabled = true;
    r
}

/// Install publisher number `publisher_counter` with the given (0 or 1) finished writer, with the state
/// `create_user_defined_publisher(QosKind::Default, no listener)` gives it on a participant that is not enabled
/// (`PublisherEntity::new(default qos, handle, list, None, mask)`); used where the real create call (40-80 s of solver
/// time, C35's subject) is not the subject of the check.
pub fn install_publisher_with(p: &mut DcpsDomainParticipant, writer: Option<UserDefinedDataWriter>) -> InstanceHandle {
    let c = p.publisher_counter;
    let h = publisher_handle(c);
    p.publisher_counter = c + 1;
    let mut list = Vec::new();
    if let Some(w) = writer {
        list.push(w);
    }
    let e = crate::dcps::dcps_domain_participant::user_defined_publisher::PublisherEntity::new(
        crate::infrastructure::qos::PublisherQos::const_default(),
        h,
        list,
        None,
        sp::mask_from_bits(0),
    );
    p.domain_participant.user_defined_publisher_list.push(e);
    h
}
pub fn install_subscriber_with(p: &mut DcpsDomainParticipant, reader: Option<UserDefinedDataReader>) -> InstanceHandle {
    let c = p.subscriber_counter;
    let h = subscriber_handle(c);
    p.subscriber_counter = c + 1;
    let mut e = crate::dcps::dcps_domain_participant::user_defined_subscriber::UserDefinedSubscriber::new(
        h,
        crate::infrastructure::qos::SubscriberQos::const_default(),
        None,
        sp::mask_from_bits(0),
    );
    if let Some(r) = reader {
        e.data_reader_list.push(r);
    }
    p.domain_participant.user_defined_subscriber_list.push(e);
    h
}
pub fn install_publisher(p: &mut DcpsDomainParticipant) -> InstanceHandle {
    install_publisher_with(p, None)
}
pub fn install_subscriber(p: &mut DcpsDomainParticipant) -> InstanceHandle {
    install_subscriber_with(p, None)
}

/// Entity id / GUID / handle `create_data_writer` computes for writer number `n` of the publisher whose
/// handle byte 12 is `pub_byte` (keyless topic): mirrors publisher_methods.rs.
pub fn writer_entity_id(pub_byte: u8, n: u16) -> EntityId {
    EntityId::new([pub_byte, n.to_le_bytes()[0], n.to_le_bytes()[1]], USER_DEFINED_WRITER_NO_KEY)
}
pub fn writer_guid(pub_byte: u8, n: u16) -> Guid {
    Guid::new(sp::PREFIX, writer_entity_id(pub_byte, n))
}
pub fn reader_entity_id(sub_byte: u8, n: u16) -> EntityId {
    EntityId::new([sub_byte, n.to_le_bytes()[0], n.to_le_bytes()[1]], USER_DEFINED_READER_NO_KEY)
}
pub fn reader_guid(sub_byte: u8, n: u16) -> Guid {
    Guid::new(sp::PREFIX, reader_entity_id(sub_byte, n))
}

/// Install a data writer directly into publisher `pub_index` with the state `create_data_writer(topic,
/// QosKind::Default, no listener)` + `enable_data_writer` give it (constructor arguments mirrored from
/// publisher_methods.rs; the real create_data_writer does not fit the solver, see HARNESS_GUIDE).
pub fn install_writer(p: &mut DcpsDomainParticipant, pub_index: usize, n: u16, topic: &str, qos: DataWriterQos) -> InstanceHandle {
    let pub_byte = p.domain_participant.user_defined_publisher_list[pub_index].instance_handle[12];
    let guid = writer_guid(pub_byte, n);
    let handle = InstanceHandle::new(guid.into());
    let mut w = UserDefinedDataWriter::new(
        handle,
        RtpsStatefulWriter::new(guid, 1344),
        String::from(topic),
        None,
        sp::mask_from_bits(0),
        qos,
    );
    w.writer.enabled = true;
    p.domain_participant.user_defined_publisher_list[pub_index].data_writer_list.push(w);
    handle
}

/// Same for a data reader (subscriber_methods.rs: `UserDefinedDataReader::new(handle, qos, topic, None, mask,
/// RtpsStatefulReader::new(guid, reliability))`).
pub fn install_reader(p: &mut DcpsDomainParticipant, sub_index: usize, n: u16, topic: &str, qos: DataReaderQos) -> InstanceHandle {
    let sub_byte = p.domain_participant.user_defined_subscriber_list[sub_index].instance_handle[12];
    let guid = reader_guid(sub_byte, n);
    let handle = InstanceHandle::new(guid.into());
    let rel = match qos.reliability.kind {
        crate::infrastructure::qos_policy::ReliabilityQosPolicyKind::BestEffort => ReliabilityKind::BestEffort,
        crate::infrastructure::qos_policy::ReliabilityQosPolicyKind::Reliable => ReliabilityKind::Reliable,
    };
    let mut r = UserDefinedDataReader::new(
        handle,
        qos,
        String::from(topic),
        None,
        sp::mask_from_bits(0),
        RtpsStatefulReader::new(guid, rel),
    );
    r.reader.enabled = true;
    p.domain_participant.user_defined_subscriber_list[sub_index].data_reader_list.push(r);
    handle
}

// ---- remote endpoints --------------------------------------------------------------------------------

/// GUID of remote reader / writer number `j` of remote participant `i`.
pub fn remote_reader_guid(i: u8, j: u8) -> Guid {
    Guid::new(remote_prefix(i), EntityId::new([0, 0, j], USER_DEFINED_READER_NO_KEY))
}
pub fn remote_writer_guid(i: u8, j: u8) -> Guid {
    Guid::new(remote_prefix(i), EntityId::new([0, 0, j], USER_DEFINED_WRITER_NO_KEY))
}

/// The SubscriptionBuiltinTopicData `process_discovered_readers` stores in `matched_subscription_list`
/// for a remote reader with that GUID (only `key` is read by the code under test here).
pub fn subscription(guid: Guid, reliable: bool) -> SubscriptionBuiltinTopicData {
    let mut q = DataReaderQos::const_default();
    q.reliability.kind = if reliable {
        crate::infrastructure::qos_policy::ReliabilityQosPolicyKind::Reliable
    } else {
        crate::infrastructure::qos_policy::ReliabilityQosPolicyKind::BestEffort
    };
    SubscriptionBuiltinTopicData {
        key: BuiltInTopicKey { value: guid.into() },
        participant_key: BuiltInTopicKey { value: [0; 16] },
        topic_name: String::new().into(),
        type_name: String::new().into(),
        type_information: None,
        durability: q.durability.clone(),
        deadline: q.deadline.clone(),
        latency_budget: q.latency_budget.clone(),
        liveliness: q.liveliness.clone(),
        reliability: q.reliability.clone(),
        ownership: q.ownership.clone(),
        destination_order: q.destination_order.clone(),
        user_data: Default::default(),
        time_based_filter: q.time_based_filter.clone(),
        presentation: Default::default(),
        partition: Default::default(),
        topic_data: Default::default(),
        group_data: Default::default(),
        representation: q.representation.clone(),
        type_consistency: q.type_consistency.clone(),
    }
}

pub fn publication(guid: Guid) -> PublicationBuiltinTopicData {
    PublicationBuiltinTopicData {
        key: BuiltInTopicKey { value: guid.into() },
        participant_key: BuiltInTopicKey { value: [0; 16] },
        topic_name: String::new().into(),
        type_name: String::new().into(),
        type_information: None,
        durability: Default::default(),
        deadline: Default::default(),
        latency_budget: Default::default(),
        liveliness: Default::default(),
        reliability: crate::infrastructure::qos_policy::DEFAULT_RELIABILITY_QOS_POLICY_DATA_WRITER,
        lifespan: Default::default(),
        user_data: Default::default(),
        ownership: Default::default(),
        ownership_strength: Default::default(),
        destination_order: Default::default(),
        presentation: Default::default(),
        partition: Default::default(),
        topic_data: Default::default(),
        group_data: Default::default(),
        representation: Default::default(),
    }
}

/// The RTPS-level proxy `process_discovered_readers` hands to `add_matched_reader` for that remote reader.
pub fn rtps_reader_proxy(guid: Guid, reliable: bool) -> ReaderProxy {
    ReaderProxy {
        remote_reader_guid: guid,
        remote_group_entity_id: ENTITYID_UNKNOWN,
        reliability_kind: if reliable { ReliabilityKind::Reliable } else { ReliabilityKind::BestEffort },
        durability_kind: DurabilityKind::Volatile,
        unicast_locator_list: Vec::new(),
        multicast_locator_list: Vec::new(),
        expects_inline_qos: false,
    }
}
pub fn rtps_writer_proxy(guid: Guid, reliable: bool) -> WriterProxy {
    WriterProxy {
        remote_writer_guid: guid,
        remote_group_entity_id: ENTITYID_UNKNOWN,
        reliability_kind: if reliable { ReliabilityKind::Reliable } else { ReliabilityKind::BestEffort },
        durability_kind: DurabilityKind::Volatile,
        unicast_locator_list: Vec::new(),
        multicast_locator_list: Vec::new(),
    }
}

/// Match remote reader `guid` to a directly installed writer exactly as the success branch of
/// `process_discovered_readers` does (discovery_methods.rs: push to matched_subscription_list, the four
/// counter updates, `add_matched_reader`), without the partition/regex/type-compatibility prefix.
pub fn match_reader(w: &mut UserDefinedDataWriter, guid: Guid, reliable: bool) {
    w.matched_subscription_list.push(subscription(guid, reliable));
    w.publication_matched_status.current_count = w.matched_subscription_list.len() as i32;
    w.publication_matched_status.current_count_change += 1;
    w.publication_matched_status.total_count += 1;
    w.publication_matched_status.total_count_change += 1;
    w.writer.transport_writer.add_matched_reader(rtps_reader_proxy(guid, reliable));
}

/// Match remote writer `guid` to a directly installed reader as the success branch of
/// `process_discovered_writers` does (`add_matched_publication` is the real function; then
/// `add_matched_writer`).
pub fn match_writer(r: &mut UserDefinedDataReader, guid: Guid, reliable: bool) {
    r.add_matched_publication(publication(guid));
    r.reader.transport_reader.add_matched_writer(&rtps_writer_proxy(guid, reliable));
}

// ---- cuts (each must be listed with `@assume stub:` on the harness using it) ---------------------------

/// No-op stubs for the SEDP *dispose* announcement of a deleted local writer / reader
/// (`announce_deleted_data_writer`, `announce_deleted_data_reader`): they build a DynamicData key holder and
/// run `unregister_w_timestamp` through the XTypes serializer (not encodable). The deleted entity is
/// forgotten (its destructor is outside every claim).
///   #[kani::stub(crate::dcps::dcps_domain_participant::participant_entity::DcpsDomainParticipant::announce_deleted_data_writer, super::support_part1::announce_deleted_data_writer_stub)]
pub fn announce_deleted_data_writer_stub<R: DdsRuntime>(_p: &mut DcpsDomainParticipant, data_writer: UserDefinedDataWriter, _runtime: &R) {
    core::mem::forget(data_writer);
}
pub fn announce_deleted_data_reader_stub<R: DdsRuntime>(_p: &mut DcpsDomainParticipant, data_reader: UserDefinedDataReader, _runtime: &R) {
    core::mem::forget(data_reader);
}
/// No-op stub for `announce_participant` (SPDP announcement through the ParameterList/XTypes serializer);
/// the real function is a no-op on a participant that is not enabled; harnesses that set `enabled = true`
/// directly (ignore_participant requires it) cut the announcement out with this stub.
pub fn announce_participant_stub<R: DdsRuntime>(_p: &mut DcpsDomainParticipant, _runtime: &R) {}

/// Instantiates the (recursive) drop glue of `xtypes::type_object::TypeIdentifier` in the harness binary, so that the
/// per-property CBMC option `--unwindset <drop_glue::<TypeIdentifier>>:1` (vlib/ptab/part1.py) names an existing
/// function in EVERY harness of the property (CBMC rejects an unwindset entry for a function that is not in the
/// program). Dropping a `TkNone` identifier does nothing.
pub fn link_drop_glue() {
    let t = crate::xtypes::type_object::TypeIdentifier::TkNone;
    let keep: bool = kani::any();
    if keep {
        core::mem::forget(t);
    } else {
        core::mem::drop(t);
    }
}
