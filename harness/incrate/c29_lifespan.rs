// C29 — expired samples (lifespan) are never delivered.
//
// The writer side is where dust-dds implements lifespan: (1) `DataWriterEntity::write_w_timestamp` does not
// hand a sample to the RTPS writer when it is already expired at write time, and (2) the worker's periodic
// duty `remove_stale_writer_samples(now)` removes expired changes from the RTPS writer history, which is the
// only place first transmissions, repairs (ACKNACK -> write_message_reliable reads `changes`) and
// late-joiner history are served from. (3) `time_until_stale_writer_sample(now)` tells the worker when the
// next change expires. Reader-side expiry (a sample already delivered into a reader cache) is not
// implemented by a dedicated mechanism and is outside this claim.
//
// Boundary: the property says "lies in the past" (timestamp + lifespan < now); at exact equality either
// behaviour is accepted (the code treats equality as expired at both places).
use super::support_part2 as s2;
use super::support_participant as sp;
use crate::dcps::dcps_domain_participant::data_writer_entity::DataWriterEntity;
use crate::dcps::dcps_domain_participant::participant_entity::DcpsDomainParticipant;
use crate::dcps::dcps_domain_participant::rtps_traits::RtpsWriter;
use crate::infrastructure::qos::DataWriterQos;
use crate::infrastructure::qos_policy::{HistoryQosPolicy, HistoryQosPolicyKind, LifespanQosPolicy};
use crate::infrastructure::time::{Duration, DurationKind, Time};
use crate::runtime::DdsRuntime;
use crate::transport::interface::WriteMessage;
use crate::transport::types::{CacheChange, ChangeKind, Guid};
use alloc::string::String;
use alloc::sync::Arc;
use alloc::vec::Vec;

const ZERO: Duration = Duration::new(0, 0);

/// An `RtpsWriter` that records what the DDS writer hands to the transport.
struct MockWriter {
    n: usize,
    last_sn: i64,
    last_ts: Option<crate::transport::types::Time>,
}
impl RtpsWriter for MockWriter {
    fn guid(&self) -> Guid {
        s2::writer_guid()
    }
    fn add_change(&mut self, cache_change: CacheChange, _message_writer: &(impl WriteMessage + ?Sized), _runtime: &impl DdsRuntime) {
        self.n += 1;
        self.last_sn = cache_change.sequence_number;
        self.last_ts = cache_change.source_timestamp;
        core::mem::forget(cache_change);
    }
}

// @check props=C29 tier=quick
// @desc expired-at-write: DataWriterEntity::write_w_timestamp(instance, data, source timestamp ts, now) on a writer with a symbolic lifespan (finite L >= 0 or infinite) and KEEP_ALL history: the call returns Ok; the change is handed to the RTPS writer if lifespan is infinite or ts + L > now, and is NOT handed over if ts + L < now (already in the past); when handed over it carries sequence number last+1 and the source timestamp ts
// @bounds one call on a writer with no registered instance yet (the write registers it); ts, now, L on the value grid seconds 0..=7 x nanoseconds {0, 1, 5*10^8, 10^9-1}; empty payload
// @assume the RTPS writer is a recording implementation of the crate's RtpsWriter trait (the real RtpsStatefulWriter::add_change is C01/C04's subject); time values on the small grid (orderings, equalities, carries); full-range arithmetic is C14
// @enc DataWriterEntity::write_w_timestamp
#[kani::proof]
#[kani::unwind(3)]
#[kani::stub(critical_section::acquire, super::support_cs::cs_acquire)]
#[kani::stub(critical_section::release, super::support_cs::cs_release)]
fn c29_expired_at_write() {
    let cap = sp::Capture::new();
    let mut qos = DataWriterQos::default();
    qos.history = HistoryQosPolicy { kind: HistoryQosPolicyKind::KeepAll };
    let infinite: bool = kani::any();
    let l = s2::any_duration();
    qos.lifespan = LifespanQosPolicy { duration: if infinite { DurationKind::Infinite } else { DurationKind::Finite(l) } };
    let mut w = DataWriterEntity::new(s2::WRITER_H, MockWriter { n: 0, last_sn: 0, last_ts: None }, String::from(s2::TOPIC_NAME), qos);
    w.enabled = true;
    let sn0: i64 = kani::any();
    kani::assume(sn0 >= 0 && sn0 < 1000);
    w.last_change_sequence_number = sn0;
    let ts = s2::any_time();
    let now = s2::any_time();
    let r = w.write_w_timestamp(s2::INSTANCE_H, Vec::new(), ts, now, &cap, &sp::VRuntime { now });
    assert!(r.is_ok(), "C29: write succeeds (no resource limit configured)");
    let sent = w.transport_writer.n == 1;
    assert!(w.transport_writer.n <= 1, "C29: at most one change handed to the transport");
    if infinite || ts + l > now {
        assert!(sent, "C29: an unexpired sample is handed to the RTPS writer");
    }
    if !infinite && ts + l < now {
        assert!(!sent, "C29: a sample already expired at write time is never handed to the RTPS writer");
    }
    if sent {
        assert!(w.transport_writer.last_sn == sn0 + 1, "C29: the change carries the next sequence number");
        assert!(w.transport_writer.last_ts == Some(ts.into()), "C29: the change carries the sample's source timestamp");
    }
    kani::cover!(!infinite && !sent && now > ts, "expired at write: dropped");
    kani::cover!(!infinite && sent && l > ZERO, "finite lifespan, not expired: sent");
    kani::cover!(infinite && sent && now > ts, "infinite lifespan: sent although old");
    core::mem::forget(w);
    core::mem::forget(cap);
}

struct Fx {
    p: DcpsDomainParticipant,
    l: Duration,
    ts: [Option<Time>; 3],
    n: usize,
}

/// Participant + publisher + one enabled writer (lifespan L finite) whose RTPS writer history holds exactly N
/// ALIVE changes with sequence numbers 1..=N and symbolic source timestamps (a change may carry none).
/// The NUMBER of changes is concrete per harness: a symbolic length makes every Vec operation that follows a
/// symbolic-size allocation/copy (measured on c29_expired_at_write: 65 s vs > 10 GB in the SAT solver).
fn history_fixture<const N: usize>() -> Fx {
    let cap = sp::Capture::new();
    let mut p = sp::participant(&cap, 0);
    let l = s2::any_duration();
    let mut qos = DataWriterQos::default();
    qos.lifespan = LifespanQosPolicy { duration: DurationKind::Finite(l) };
    let mut w = s2::new_writer(qos, None, sp::mask_from_bits(0));
    let n: usize = N;
    let mut ts: [Option<Time>; 3] = [None; 3];
    let mut i = 0;
    while i < N {
        if i < n {
            ts[i] = if kani::any() { Some(s2::any_time()) } else { None };
            w.transport_writer.changes_mut().push(CacheChange {
                kind: ChangeKind::Alive,
                writer_guid: s2::writer_guid(),
                sequence_number: (i + 1) as i64,
                source_timestamp: ts[i].map(|t| t.into()),
                instance_handle: Some([0; 16]),
                data_value: Arc::from(&[0u8; 0][..]),
            });
        }
        i += 1;
    }
    w.last_change_sequence_number = n as i64;
    s2::install_publisher(&mut p, None, sp::mask_from_bits(0), alloc::vec![w]);
    core::mem::forget(cap);
    Fx { p, l, ts, n }
}

fn changes(p: &DcpsDomainParticipant) -> &[CacheChange] {
    p.domain_participant.user_defined_publisher_list[0].data_writer_list[0].transport_writer.changes()
}

fn remove_stale<const N: usize>() {
    let mut f = history_fixture::<N>();
    let now = s2::any_time();
    f.p.remove_stale_writer_samples(now);
    // reference: which of the pre-state changes may / must remain
    let after = changes(&f.p);
    let mut j = 0; // index into `after`
    let mut i = 0;
    let mut removed_any = false;
    while i < N {
        if i < f.n {
            let sn = (i + 1) as i64;
            let present = j < after.len() && after[j].sequence_number == sn;
            match f.ts[i] {
                None => assert!(present, "C29: a change without source timestamp is kept"),
                Some(t) => {
                    if t + f.l < now {
                        assert!(!present, "C29: a change whose timestamp + lifespan lies in the past is removed from the writer history");
                    }
                    if t + f.l > now {
                        assert!(present, "C29: an unexpired change stays in the writer history");
                    }
                }
            }
            if present {
                assert!(after[j].source_timestamp == f.ts[i].map(|t| t.into()), "C29: a kept change is unmodified");
                j += 1;
            } else {
                removed_any = true;
            }
        }
        i += 1;
    }
    assert!(j == after.len(), "C29: the history contains nothing but kept changes, in their original order");
    kani::cover!(removed_any && j >= 1, "one change expired, another kept");
    kani::cover!(j == 0, "every change expired");
    kani::cover!(j == N && now > Time::new(0, 0), "nothing expired");
    core::mem::forget(f);
}

// @check props=C29 tier=quick
// @desc remove_stale_writer_samples(now) on a real participant whose writer history holds 2 changes with symbolic source timestamps (possibly none) and a symbolic finite lifespan L: afterwards every change with timestamp + L < now is gone (no first transmission, repair or late-joiner history can carry it: all three read this history), every change with timestamp + L > now or without timestamp is still there, unmodified and in order, and nothing else is in the history
// @bounds one publisher, one writer, exactly 2 changes (per-loop bound 3 on Vec::retain's loops); timestamps, now, L on the value grid seconds 0..=7 x nanoseconds {0, 1, 5*10^8, 10^9-1}
// @assume the publisher/writer were installed directly in the state create_user_defined_publisher / create_data_writer + enable give them (support_part2.rs); history filled through RtpsStatefulWriter::changes_mut().push (what add_change stores when no reader is matched)
// @enc DcpsDomainParticipant::remove_stale_writer_samples
#[kani::proof]
#[kani::unwind(2)]
#[kani::stub(critical_section::acquire, super::support_cs::cs_acquire)]
#[kani::stub(critical_section::release, super::support_cs::cs_release)]
fn c29_remove_stale_2() {
    remove_stale::<2>();
}

fn time_until<const N: usize>() {
    let f = history_fixture::<N>();
    let now = s2::any_time();
    let r = f.p.time_until_stale_writer_sample(now);
    // reference: minimum remaining lifetime over the changes that carry a timestamp
    let mut any_ts = false;
    let mut i = 0;
    while i < N {
        if i < f.n {
            if let Some(t) = f.ts[i] {
                any_ts = true;
                let remaining = t + f.l - now;
                match r {
                    Some(d) => assert!(d <= remaining, "C29: time until the next stale sample is no later than any change's remaining lifetime"),
                    None => assert!(false, "C29: a change with a timestamp yields a lifespan duty"),
                }
            }
        }
        i += 1;
    }
    if let Some(d) = r {
        assert!(any_ts, "C29: no duty without a timestamped change");
        let mut attained = false;
        let mut i = 0;
        while i < N {
            if i < f.n {
                if let Some(t) = f.ts[i] {
                    if t + f.l - now == d {
                        attained = true;
                    }
                }
            }
            i += 1;
        }
        assert!(attained, "C29: the value is the remaining lifetime of one of the changes (the minimum)");
    }
    kani::cover!(r.is_some_and(|d| d < ZERO), "a change is already overdue (negative value)");
    kani::cover!(r.is_some_and(|d| d > ZERO), "all changes still alive");
    kani::cover!(r.is_none(), "changes without timestamps only");
    core::mem::forget(f);
}

// @check props=C29 tier=quick
// @desc time_until_stale_writer_sample(now) on the same pre-state family (2 changes): Some(d) iff a change carries a timestamp, and d is the MINIMUM over those changes of (timestamp + L - now) — so the worker (C31) wakes up no later than the first expiry
// @bounds one publisher, one writer, exactly 2 changes (per-loop bound 3 on Vec::retain's loops); timestamps, now, L as c29_remove_stale_2
// @assume as c29_remove_stale_2
// @enc DcpsDomainParticipant::time_until_stale_writer_sample
#[kani::proof]
#[kani::unwind(3)]
#[kani::stub(critical_section::acquire, super::support_cs::cs_acquire)]
#[kani::stub(critical_section::release, super::support_cs::cs_release)]
fn c29_time_until_stale_2() {
    time_until::<2>();
}

// @check props=C29 tier=thorough
// @desc as c29_time_until_stale_2 with exactly 3 changes
// @bounds one publisher, one writer, exactly 3 changes
// @assume as c29_remove_stale_2
// @enc DcpsDomainParticipant::time_until_stale_writer_sample
#[kani::proof]
#[kani::unwind(4)]
#[kani::stub(critical_section::acquire, super::support_cs::cs_acquire)]
#[kani::stub(critical_section::release, super::support_cs::cs_release)]
fn c29_time_until_stale_3() {
    time_until::<3>();
}
