// Shared constructors for the C20 / C22 / C23 / C24 harnesses (DataReader read/take, instance life
// cycle, next-instance walk, exclusive ownership).  Everything here only *builds* pre-states of the
// real `DataReaderEntity<()>` through its public fields (plus the guarded `InstanceState`
// verification hook for the private instance fields) and reads them back; no behaviour of the code
// under test is re-implemented here.
use alloc::{string::String, sync::Arc, vec::Vec};

use crate::builtin_topics::{BuiltInTopicKey, PublicationBuiltinTopicData};
use crate::dcps::dcps_domain_participant::data_reader_entity::{
    DataReaderEntity, InstanceOwnership, InstanceState, ReaderSample,
};
use crate::infrastructure::{
    instance::InstanceHandle,
    qos::DataReaderQos,
    qos_policy::{
        DestinationOrderQosPolicyKind, HistoryQosPolicyKind, Length, OwnershipQosPolicyKind,
    },
    sample_info::{InstanceStateKind, SampleStateKind, ViewStateKind},
    time::{Time, TIME_INVALID_NSEC, TIME_INVALID_SEC},
};
use crate::transport::types::{ChangeKind, Guid};

/// Largest generation count used in symbolic pre-states (keeps `a + b - (c + d)` far from i32
/// overflow, which no real history reaches: it would need > 10^6 rebirths of one instance).
pub const MAX_GEN: i32 = 1_000_000;

pub fn data() -> Arc<[u8]> {
    Arc::from(Vec::<u8>::new())
}

/// Instance handle with two symbolic bytes (most and least significant for the derived `Ord`).
pub fn handle(b0: u8, b15: u8) -> InstanceHandle {
    let mut h = [0u8; 16];
    h[0] = b0;
    h[15] = b15;
    InstanceHandle::new(h)
}
pub fn any_handle() -> InstanceHandle {
    handle(kani::any(), kani::any())
}

/// Writer guid (as the 16 bytes stored in `ReaderSample::writer_guid`) with one symbolic byte.
pub fn wguid(b: u8) -> [u8; 16] {
    let mut g = [0u8; 16];
    g[0] = 1;
    g[11] = b;
    g[15] = 0x02;
    g
}
pub fn guid_of(bytes: [u8; 16]) -> Guid {
    Guid::from(bytes)
}

pub fn any_sample_state() -> SampleStateKind {
    if kani::any() {
        SampleStateKind::Read
    } else {
        SampleStateKind::NotRead
    }
}
pub fn any_view_state() -> ViewStateKind {
    if kani::any() {
        ViewStateKind::New
    } else {
        ViewStateKind::NotNew
    }
}
pub fn any_instance_state() -> InstanceStateKind {
    let s: u8 = kani::any();
    kani::assume(s < 3);
    match s {
        0 => InstanceStateKind::Alive,
        1 => InstanceStateKind::NotAliveDisposed,
        _ => InstanceStateKind::NotAliveNoWriters,
    }
}
/// Any of the five change kinds.
pub fn any_kind() -> ChangeKind {
    let s: u8 = kani::any();
    kani::assume(s < 5);
    kind_of(s)
}
/// Alive / NotAliveDisposed / NotAliveUnregistered / NotAliveDisposedUnregistered (no AliveFiltered).
pub fn any_kind4() -> ChangeKind {
    let s: u8 = kani::any();
    kani::assume(s < 4);
    kind_of(s)
}
pub fn kind_of(s: u8) -> ChangeKind {
    match s {
        0 => ChangeKind::Alive,
        1 => ChangeKind::NotAliveDisposed,
        2 => ChangeKind::NotAliveUnregistered,
        3 => ChangeKind::NotAliveDisposedUnregistered,
        _ => ChangeKind::AliveFiltered,
    }
}
pub fn is_alive_kind(k: ChangeKind) -> bool {
    matches!(k, ChangeKind::Alive | ChangeKind::AliveFiltered)
}
pub fn any_gen() -> i32 {
    let g: i32 = kani::any();
    kani::assume(g >= 0 && g <= MAX_GEN);
    g
}
pub fn any_time() -> Time {
    let s: i32 = kani::any();
    let n: u32 = kani::any();
    kani::assume(s >= 0 && s < 1_000_000 && n < 1_000_000_000);
    Time::new(s, n)
}
pub fn invalid_time() -> Time {
    Time::new(TIME_INVALID_SEC, TIME_INVALID_NSEC)
}

/// Specification-side (Copy) description of an instance: what the harness put into the pre-state.
#[derive(Clone, Copy)]
pub struct ISpec {
    pub h: InstanceHandle,
    pub view: ViewStateKind,
    pub st: InstanceStateKind,
    pub dgc: i32,
    pub nwgc: i32,
    pub ts: Time,
}
pub fn any_ispec(h: InstanceHandle) -> ISpec {
    ISpec {
        h,
        view: any_view_state(),
        st: any_instance_state(),
        dgc: any_gen(),
        nwgc: any_gen(),
        ts: invalid_time(),
    }
}
pub fn mk_inst(i: &ISpec) -> InstanceState {
    InstanceState::verif_from_parts(i.h, i.view, i.st, i.dgc, i.nwgc, i.ts)
}
/// Observed (view, state, disposed gen, no-writers gen) of an instance of the real reader (the
/// harnesses never build more than 3 instances / ownership records; they assert the lengths).
pub fn inst_parts(
    r: &DataReaderEntity<()>,
    h: &InstanceHandle,
) -> Option<(ViewStateKind, InstanceStateKind, i32, i32, Time)> {
    let mut out = None;
    let mut i = 0;
    while i < 3 {
        if i < r.instances.len() && r.instances[i].handle == *h && out.is_none() {
            out = Some(r.instances[i].verif_parts());
        }
        i += 1;
    }
    out
}
pub fn inst_unchanged(r: &DataReaderEntity<()>, i: &ISpec) -> bool {
    match inst_parts(r, &i.h) {
        Some((v, s, d, n, _)) => v == i.view && s == i.st && d == i.dgc && n == i.nwgc,
        None => false,
    }
}
/// Number of `InstanceState` entries with this handle (representation invariant: <= 1).
pub fn inst_count(r: &DataReaderEntity<()>, h: &InstanceHandle) -> usize {
    let mut c = 0;
    let mut i = 0;
    while i < 3 {
        if i < r.instances.len() && r.instances[i].handle == *h {
            c += 1;
        }
        i += 1;
    }
    c
}

/// Specification-side (Copy) description of a stored sample.
#[derive(Clone, Copy)]
pub struct SSpec {
    pub kind: ChangeKind,
    pub writer: [u8; 16],
    pub inst: usize, // index into the harness' instance table
    pub h: InstanceHandle,
    pub ss: SampleStateKind,
    pub dgc: i32,
    pub nwgc: i32,
    pub ts: Option<Time>,
}
pub fn mk_sample(s: &SSpec) -> ReaderSample {
    ReaderSample {
        kind: s.kind,
        writer_guid: s.writer,
        instance_handle: s.h,
        source_timestamp: s.ts,
        data_value: data(),
        sample_state: s.ss,
        disposed_generation_count: s.dgc,
        no_writers_generation_count: s.nwgc,
    }
}
/// Field-wise equality of a stored sample with its specification, with an expected sample state.
pub fn sample_is(x: &ReaderSample, s: &SSpec, ss: SampleStateKind) -> bool {
    x.kind == s.kind
        && eq16(&x.writer_guid, &s.writer)
        && x.instance_handle == s.h
        && x.source_timestamp == s.ts
        && x.sample_state == ss
        && x.disposed_generation_count == s.dgc
        && x.no_writers_generation_count == s.nwgc
}

pub fn publication(key: [u8; 16], strength: i32) -> PublicationBuiltinTopicData {
    let mut p = PublicationBuiltinTopicData {
        key: BuiltInTopicKey { value: key },
        participant_key: BuiltInTopicKey { value: [0; 16] },
        topic_name: String::new().into(),
        type_name: String::new().into(),
        type_information: None,
        durability: Default::default(),
        deadline: Default::default(),
        latency_budget: Default::default(),
        liveliness: Default::default(),
        reliability: crate::infrastructure::qos_policy::DEFAULT_RELIABILITY_QOS_POLICY_DATA_WRITER,
        lifespan: Default::default(),
        user_data: Default::default(),
        ownership: Default::default(),
        ownership_strength: Default::default(),
        destination_order: Default::default(),
        presentation: Default::default(),
        partition: Default::default(),
        topic_data: Default::default(),
        group_data: Default::default(),
        representation: Default::default(),
    };
    p.ownership_strength.value = strength;
    p
}

/// Reader QoS used by the read/take and life-cycle harnesses: everything that is decided by other
/// properties (history depth C18, resource limits C19, destination order C21, time-based filter
/// C25) is neutral: KEEP_ALL, unlimited, BY_RECEPTION_TIMESTAMP, minimum_separation 0.
pub fn neutral_qos(exclusive: bool) -> DataReaderQos {
    let mut q = DataReaderQos::const_default();
    q.history.kind = HistoryQosPolicyKind::KeepAll;
    q.resource_limits.max_samples = Length::Unlimited;
    q.resource_limits.max_instances = Length::Unlimited;
    q.resource_limits.max_samples_per_instance = Length::Unlimited;
    q.destination_order.kind = DestinationOrderQosPolicyKind::ByReceptionTimestamp;
    q.ownership.kind = if exclusive {
        OwnershipQosPolicyKind::Exclusive
    } else {
        OwnershipQosPolicyKind::Shared
    };
    q
}

pub fn reader(qos: DataReaderQos) -> DataReaderEntity<()> {
    let mut r = DataReaderEntity::new(handle(0xEE, 0xEE), qos, String::new(), ());
    r.enabled = true;
    r
}
// (Measured: giving the vectors an exact `Vec::with_capacity` makes the formulas 10x larger than
// letting them grow from `Vec::new()`; the constructors therefore only push.)

pub fn ownership(h: InstanceHandle, owner: [u8; 16], t: Time) -> InstanceOwnership {
    InstanceOwnership {
        instance_handle: h,
        owner_handle: owner,
        last_received_time: t,
    }
}
/// (number of ownership entries for `h`, owner of the first one)
pub fn owner_of(r: &DataReaderEntity<()>, h: &InstanceHandle) -> (usize, Option<[u8; 16]>) {
    let mut c = 0;
    let mut o = None;
    let mut i = 0;
    while i < 3 {
        if i < r.instance_ownership.len() && r.instance_ownership[i].instance_handle == *h {
            if o.is_none() {
                o = Some(r.instance_ownership[i].owner_handle);
            }
            c += 1;
        }
        i += 1;
    }
    (c, o)
}

/// A mask given as a fixed-length slice with possibly repeated entries: every non-empty subset of
/// the two-valued domain is represented (the code under test only uses `slice::contains`).
pub fn any_sample_mask() -> [SampleStateKind; 2] {
    [any_sample_state(), any_sample_state()]
}
pub fn any_view_mask() -> [ViewStateKind; 2] {
    [any_view_state(), any_view_state()]
}
pub fn any_instance_mask() -> [InstanceStateKind; 3] {
    [any_instance_state(), any_instance_state(), any_instance_state()]
}
pub fn in_smask(m: &[SampleStateKind; 2], x: SampleStateKind) -> bool {
    m[0] == x || m[1] == x
}
pub fn in_vmask(m: &[ViewStateKind; 2], x: ViewStateKind) -> bool {
    m[0] == x || m[1] == x
}
pub fn in_imask(m: &[InstanceStateKind; 3], x: InstanceStateKind) -> bool {
    m[0] == x || m[1] == x || m[2] == x
}

// ---- loop-free replacements for the derived 16-byte comparisons of `InstanceHandle` ------------------
// The derived `PartialEq`/`Ord` of `InstanceHandle([u8; 16])` compile to a `memcmp` loop.  Inside
// `create_sample_collection` they are evaluated in loops over vectors whose length depends on
// symbolic conditions, which CBMC unrolls up to the global bound: 17 x 17 x 16 iterations per
// comparison site (measured: no answer in 900 s for ONE stored sample).  The harnesses therefore
// stub the two trait methods with the byte-wise definitions below; `c20_stub_equivalence` proves
// (with the real methods, unwind 17) that they agree with the derived ones on all inputs.
pub fn bytes_of(h: &InstanceHandle) -> [u8; 16] {
    <[u8; 16]>::from(*h)
}
/// Branch-free equality of two 16-byte arrays (one 128-bit comparison instead of a memcmp loop).
pub fn eq16(a: &[u8; 16], b: &[u8; 16]) -> bool {
    u128::from_be_bytes(*a) == u128::from_be_bytes(*b)
}
pub fn ih_eq(a: &InstanceHandle, b: &InstanceHandle) -> bool {
    eq16(&bytes_of(a), &bytes_of(b))
}
/// Lexicographic order of the 16 bytes as two big-endian 64-bit words (= derived `Ord` of `[u8; 16]`).
pub fn ih_cmp(a: &InstanceHandle, b: &InstanceHandle) -> core::cmp::Ordering {
    let x = u128::from_be_bytes(bytes_of(a));
    let y = u128::from_be_bytes(bytes_of(b));
    if x < y {
        core::cmp::Ordering::Less
    } else if x == y {
        core::cmp::Ordering::Equal
    } else {
        core::cmp::Ordering::Greater
    }
}
pub fn ih_partial_cmp(a: &InstanceHandle, b: &InstanceHandle) -> Option<core::cmp::Ordering> {
    Some(ih_cmp(a, b))
}

// ---- loop-free replacements for array equality -----------------------------------------------------------
// `[u8; 16] == / != [u8; 16]` (writer guids, publication keys) compile to a 16-iteration `memcmp`
// loop, which forces the global unwinding bound to 17; with that bound every loop over a vector whose
// length depends on a symbolic condition is unrolled 17 times (measured: the formula doubles).  The
// C24 harnesses stub the two methods of `impl PartialEq<[U; N]> for [T; N]` with the element-wise
// definitions below (N <= 16, anything larger fails the harness).
pub fn arr_eq<T: core::cmp::PartialEq<U>, U, const N: usize>(a: &[T; N], b: &[U; N]) -> bool {
    assert!(N <= 16, "stub arr_eq: arrays longer than 16 elements are not covered");
    (N < 1 || a[0] == b[0])
        & (N < 2 || a[1 % N] == b[1 % N])
        & (N < 3 || a[2 % N] == b[2 % N])
        & (N < 4 || a[3 % N] == b[3 % N])
        & (N < 5 || a[4 % N] == b[4 % N])
        & (N < 6 || a[5 % N] == b[5 % N])
        & (N < 7 || a[6 % N] == b[6 % N])
        & (N < 8 || a[7 % N] == b[7 % N])
        & (N < 9 || a[8 % N] == b[8 % N])
        & (N < 10 || a[9 % N] == b[9 % N])
        & (N < 11 || a[10 % N] == b[10 % N])
        & (N < 12 || a[11 % N] == b[11 % N])
        & (N < 13 || a[12 % N] == b[12 % N])
        & (N < 14 || a[13 % N] == b[13 % N])
        & (N < 15 || a[14 % N] == b[14 % N])
        & (N < 16 || a[15 % N] == b[15 % N])
}
pub fn arr_ne<T: core::cmp::PartialEq<U>, U, const N: usize>(a: &[T; N], b: &[U; N]) -> bool {
    !arr_eq(a, b)
}
