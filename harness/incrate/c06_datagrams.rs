// C06 — no datagram can crash, hang or exhaust a participant.
// Decided per stage (whole-message parsing of arbitrary bytes is not tractable, see C07):
//   1. dispatcher: well-formed messages with symbolic field values through the real parser, the
//      real MessageReceiver and the real DcpsDomainParticipant::handle_data;
//   2. per-handler step on a real participant whose built-in publications reader has a matched
//      writer proxy ("claims to come from a discovered participant"): GAP;
//   3. fragment arithmetic of RtpsStatefulReader::on_data_frag_submessage / RtpsWriterProxy;
//   4. allocation bounds of the element readers: asserted in the C07 harnesses (SequenceNumberSet,
//      LocatorList, ParameterList, discovery locator list) - not repeated here.
// Datagram images are written little-endian by the harness (field order of RTPS 2.x clause 9.4);
// that the real encoder produces exactly these layouts is C08's subject.
//
// Known findings kept as `__known` harnesses (trigger assumed, expected to fail):
//   KF-C06-1  an INFO_REPLY submessage reaches `todo!()` in MessageReceiver::next
//   KF-C06-2  GAP: the loop `gap_start..gap_list.base()` runs an attacker-chosen number of times
//   KF-C06-3  DATA_FRAG with fragment_size 0 from a matched writer: division by zero
//   KF-C06-4  SequenceNumberSet::set(): `base + delta` overflows for a base near i64::MAX
// (KF-C07-1/2/3 are datagram-reachable panics as well; their harnesses carry props=C07,C06.)
use alloc::vec::Vec;
use core::sync::atomic::{AtomicUsize, Ordering};

use super::support_participant as sp;

use crate::infrastructure::time::Time;
use crate::rtps::message_receiver::MessageReceiver;
use crate::rtps::writer_proxy::RtpsWriterProxy;
use crate::rtps_messages::overall_structure::{Endianness, RtpsMessageRead, RtpsSubmessageReadKind, TryReadFromBytes};
use crate::rtps_messages::submessage_elements::{ParameterList, SequenceNumberSet, SerializedDataFragment};
use crate::rtps_messages::submessages::data_frag::DataFragSubmessage;
use crate::transport::types::{
    DurabilityKind, EntityId, Guid, GuidPrefix, ReliabilityKind, SequenceNumber, WriterProxy, ENTITYID_UNKNOWN,
};

const W_PREFIX: GuidPrefix = [0x41; 12];
/// ENTITYID_SEDP_BUILTIN_PUBLICATIONS_ANNOUNCER
const W_ID: EntityId = EntityId::new([0, 0, 3], 0xc2);
const R_ID: EntityId = EntityId::new([0, 0, 3], 0xc7);

fn rt() -> sp::VRuntime {
    sp::VRuntime { now: Time::new(1, 0) }
}

fn writer_proxy() -> WriterProxy {
    WriterProxy {
        remote_writer_guid: Guid::new(W_PREFIX, W_ID),
        remote_group_entity_id: ENTITYID_UNKNOWN,
        reliability_kind: ReliabilityKind::Reliable,
        durability_kind: DurabilityKind::TransientLocal,
        unicast_locator_list: Vec::new(),
        multicast_locator_list: Vec::new(),
    }
}

/// 20-byte RTPS header: protocol id, version 2.4, vendor id, `prefix`.
fn put_header(b: &mut [u8], prefix: &GuidPrefix) {
    b[0] = b'R';
    b[1] = b'T';
    b[2] = b'P';
    b[3] = b'S';
    b[4] = 2;
    b[5] = 4;
    b[6] = 1;
    b[7] = 20;
    let mut i = 0;
    while i < 12 {
        b[8 + i] = prefix[i];
        i += 1;
    }
}
fn put_sub(b: &mut [u8], at: usize, id: u8, flags: u8, len: u16) {
    b[at] = id;
    b[at + 1] = flags;
    b[at + 2] = len as u8;
    b[at + 3] = (len >> 8) as u8;
}
fn put4(b: &mut [u8], at: usize, v: [u8; 4]) {
    b[at] = v[0];
    b[at + 1] = v[1];
    b[at + 2] = v[2];
    b[at + 3] = v[3];
}
fn put_sn(b: &mut [u8], at: usize, sn: i64) {
    put4(b, at, ((sn >> 32) as i32).to_le_bytes());
    put4(b, at + 4, (sn as u32).to_le_bytes());
}

// ------------------------------------------------------------------------------------------
// 1. dispatcher
// ------------------------------------------------------------------------------------------

// @check props=C06 tier=quick known=KF-C06-1
// @desc KNOWN DEFECT: a 28-byte datagram (RTPS header + INFO_REPLY submessage with an empty unicast locator list) is accepted by the real parser and the real MessageReceiver::next reaches `InfoReply(_) => todo!()`; DcpsDomainParticipant::handle_data calls exactly this pair (communication_methods.rs:406-409) for every received datagram, so the worker panics
// @bounds datagram: any guid prefix, INFO_REPLY (id 0x0f), flags E, numLocators 0; unwind 30
// @assume trigger: the datagram contains a well-formed INFO_REPLY submessage
// @enc rtps_messages::overall_structure::RtpsMessageRead::try_from
// @enc rtps::message_receiver::MessageReceiver::next
#[kani::proof]
#[kani::unwind(30)]
fn c06_info_reply_reaches_todo__known() {
    let prefix: GuidPrefix = kani::any();
    let mut b = [0u8; 28];
    put_header(&mut b, &prefix);
    put_sub(&mut b, 20, 0x0f, 1, 4);
    if let Ok(m) = RtpsMessageRead::try_from(&b[..]) {
        assert!(m.submessages().len() == 1, "C06: harness image");
        let mut mr = MessageReceiver::new(&m);
        let _ = mr.next();
        core::mem::forget(m);
    }
}

// @check props=C06 tier=thorough timeout=1800 known=KF-C06-1
// @desc KNOWN DEFECT KF-C06-1 at participant level: the same 28-byte datagram handed to DcpsDomainParticipant::handle_data of a freshly constructed participant panics (not decided in the quick tier: > 900 s on the loaded machine)
// @bounds as c06_info_reply_reaches_todo__known; real participant; unwind 30
// @assume trigger: the datagram contains a well-formed INFO_REPLY submessage; critical_section::acquire/release stubbed
// @enc dcps::dcps_domain_participant::communication_methods::DcpsDomainParticipant::handle_data
#[kani::proof]
#[kani::unwind(30)]
#[kani::stub(critical_section::acquire, super::support_cs::cs_acquire)]
#[kani::stub(critical_section::release, super::support_cs::cs_release)]
fn c06_info_reply_handle_data__known() {
    let prefix: GuidPrefix = kani::any();
    let mut b = [0u8; 28];
    put_header(&mut b, &prefix);
    put_sub(&mut b, 20, 0x0f, 1, 4);
    let cap = sp::Capture::new();
    let mut p = sp::participant(&cap, 0);
    p.handle_data(&b[..], &rt());
    core::mem::forget(p);
}

// @check props=C06 tier=thorough timeout=1800
// @desc (NOT decided so far: > 900 s; CBMC explores every decoder although the framing bytes are concrete) dispatcher on well-formed messages without INFO_REPLY: [INFO_TS(invalidate), HEARTBEAT] and [INFO_TS, INFO_SRC, PAD] with symbolic timestamp, version, vendor, prefixes, ids, sequence numbers and count are parsed by the real parser and iterated by the real MessageReceiver until exhaustion: no panic; the first yields exactly the HEARTBEAT with no timestamp and the header's prefix as source, the second yields nothing and leaves the INFO_SRC prefix and the INFO_TS timestamp in the receiver
// @bounds datagrams of 56 and 60 bytes (local arrays of up to 60 bytes keep their concrete framing bytes in CBMC; 64 bytes did not finish in 900 s), all value fields symbolic over their full domain; submessage ids / flags / lengths concrete; unwind 30
// @assume NOT trigger KF-C06-1 (no INFO_REPLY submessage)
// @enc rtps_messages::overall_structure::RtpsMessageRead::try_from
// @enc rtps::message_receiver::MessageReceiver::next
#[kani::proof]
#[kani::unwind(30)]
fn c06_receiver_dispatch__rest() {
    let prefix: GuidPrefix = kani::any();
    let (first_sn, last_sn, count): (i64, i64, i32) = (kani::any(), kani::any(), kani::any());
    {
        let mut b = [0u8; 56];
        b[0] = b'R';
        b[1] = b'T';
        b[2] = b'P';
        b[3] = b'S';
        b[4] = 2;
        b[5] = 4;
        b[6] = 1;
        b[7] = 20;
        b[8] = prefix[0];
        b[9] = prefix[1];
        b[10] = prefix[2];
        b[11] = prefix[3];
        b[12] = prefix[4];
        b[13] = prefix[5];
        b[14] = prefix[6];
        b[15] = prefix[7];
        b[16] = prefix[8];
        b[17] = prefix[9];
        b[18] = prefix[10];
        b[19] = prefix[11];
        b[20] = 0x09;
        b[21] = 0b11;
        b[22] = 0;
        b[23] = 0; // INFO_TS with the invalidate flag: no timestamp follows
        b[24] = 0x07;
        b[25] = 1;
        b[26] = 28;
        b[27] = 0; // HEARTBEAT (final / liveliness clear)
        put4(&mut b, 28, kani::any());
        put4(&mut b, 32, kani::any());
        put_sn(&mut b, 36, first_sn);
        put_sn(&mut b, 44, last_sn);
        put4(&mut b, 52, count.to_le_bytes());
        let m = match RtpsMessageRead::try_from(&b[..]) {
            Ok(m) => m,
            Err(_) => {
                assert!(false, "C06: well-formed message rejected");
                return;
            }
        };
        assert!(m.submessages().len() == 2, "C06: two submessages parsed");
        let mut mr = MessageReceiver::new(&m);
        let mut yielded = 0;
        while let Some(s) = mr.next() {
            yielded += 1;
            match s {
                RtpsSubmessageReadKind::Heartbeat(h) => {
                    assert!(h.first_sn() == first_sn && h.last_sn() == last_sn && h.count() == count, "C06: HEARTBEAT values");
                }
                _ => assert!(false, "C06: MessageReceiver yielded an interpreter submessage"),
            }
            assert!(mr.source_guid_prefix() == prefix, "C06: source prefix is the header's");
            assert!(mr.source_timestamp().is_none(), "C06: timestamp present after INFO_TS(invalidate)");
        }
        assert!(yielded == 1, "C06: exactly the HEARTBEAT is yielded");
        kani::cover!(first_sn > last_sn && count < 0, "a HEARTBEAT with first > last and a negative count passes the dispatcher");
        core::mem::forget(m);
    }
    {
        let src: GuidPrefix = kani::any();
        let (sec, frac): (u32, u32) = (kani::any(), kani::any());
        let mut c = [0u8; 60];
        c[0] = b'R';
        c[1] = b'T';
        c[2] = b'P';
        c[3] = b'S';
        c[4] = 2;
        c[5] = 4;
        c[6] = 1;
        c[7] = 20;
        c[8] = prefix[0];
        c[9] = prefix[1];
        c[10] = prefix[2];
        c[11] = prefix[3];
        c[12] = prefix[4];
        c[13] = prefix[5];
        c[14] = prefix[6];
        c[15] = prefix[7];
        c[16] = prefix[8];
        c[17] = prefix[9];
        c[18] = prefix[10];
        c[19] = prefix[11];
        c[20] = 0x09;
        c[21] = 1;
        c[22] = 8;
        c[23] = 0; // INFO_TS
        put4(&mut c, 24, sec.to_le_bytes());
        put4(&mut c, 28, frac.to_le_bytes());
        c[32] = 0x0c;
        c[33] = 1;
        c[34] = 20;
        c[35] = 0; // INFO_SRC: unused(4) version(2) vendor(2) prefix(12)
        c[40] = kani::any();
        c[41] = kani::any();
        c[42] = kani::any();
        c[43] = kani::any();
        let mut i = 0;
        while i < 12 {
            c[44 + i] = src[i];
            i += 1;
        }
        c[56] = 0x01;
        c[57] = 1;
        c[58] = 0;
        c[59] = 0; // PAD
        match RtpsMessageRead::try_from(&c[..]) {
            Ok(m) => {
                assert!(m.submessages().len() == 3, "C06: three submessages parsed");
                let mut mr = MessageReceiver::new(&m);
                assert!(mr.next().is_none(), "C06: interpreter submessages are not yielded");
                assert!(mr.source_guid_prefix() == src, "C06: source prefix after INFO_SRC");
                match mr.source_timestamp() {
                    Some(t) => assert!(t.seconds() == sec && t.fraction() == frac, "C06: timestamp after INFO_TS"),
                    None => assert!(false, "C06: timestamp lost"),
                }
                core::mem::forget(m);
            }
            Err(_) => assert!(false, "C06: well-formed message rejected"),
        }
    }
}

// ------------------------------------------------------------------------------------------
// 2. per-handler step on a real participant: GAP
// ------------------------------------------------------------------------------------------

static GAP_STEPS: AtomicUsize = AtomicUsize::new(0);
const GAP_STEP_BOUND: usize = 64;

/// Stub for RtpsWriterProxy::irrelevant_change_set in the __known harness: counts the calls one
/// datagram causes and asserts the termination bound (the real body is a 3-line max-update).
fn counting_irrelevant_change_set(_p: &mut RtpsWriterProxy, _sn: SequenceNumber) {
    let n = GAP_STEPS.fetch_add(1, Ordering::Relaxed) + 1;
    assert!(n <= GAP_STEP_BOUND, "C06: one 52-byte GAP datagram makes the handler iterate more than 64 times (loop count = gapList.base - gapStart, attacker-chosen i64 values)");
}

/// A participant whose built-in publications reader is matched with writer (W_PREFIX, W_ID), and a
/// 52-byte datagram from W_PREFIX carrying GAP(gap_start, base, numBits = 0).
fn gap_datagram(gap_start: i64, base: i64) -> [u8; 52] {
    let mut b = [0u8; 52];
    put_header(&mut b, &W_PREFIX);
    put_sub(&mut b, 20, 0x08, 1, 28);
    put4(&mut b, 24, kani::any());
    put4(&mut b, 28, [0, 0, 3, 0xc2]);
    put_sn(&mut b, 32, gap_start);
    put_sn(&mut b, 40, base);
    put4(&mut b, 48, 0u32.to_le_bytes());
    b
}

// @check props=C06 tier=thorough timeout=1800 known=KF-C06-2
// @desc KNOWN DEFECT (hang): handle_gap_submessage runs `for seq_num in gap_start..gap_list.base()` over attacker-chosen i64 values; one 52-byte GAP from a matched (discovered) writer with base - gap_start > 64 makes the handler call irrelevant_change_set more than 64 times (up to 2^63: the single worker never returns)
// @bounds real participant, built-in publications reader matched with one writer proxy; GAP gap_start / base symbolic with base - gap_start > 64, empty bitmap; unwind 70; the loop body (RtpsWriterProxy::irrelevant_change_set) is replaced by a counting stub asserting the bound
// @assume trigger: gapList.base - gapStart > 64 and the GAP's writer GUID is matched by a reader
// @assume stub: RtpsWriterProxy::irrelevant_change_set replaced by a call counter asserting <= 64 calls; critical_section::acquire/release stubbed
// @enc dcps::dcps_domain_participant::communication_methods::DcpsDomainParticipant::handle_data
// @enc dcps::dcps_domain_participant::communication_methods::DcpsDomainParticipant::handle_gap_submessage
#[kani::proof]
#[kani::unwind(70)]
#[kani::stub(critical_section::acquire, super::support_cs::cs_acquire)]
#[kani::stub(critical_section::release, super::support_cs::cs_release)]
#[kani::stub(crate::rtps::writer_proxy::RtpsWriterProxy::irrelevant_change_set, counting_irrelevant_change_set)]
fn c06_gap_range_loop__known() {
    let gap_start: i64 = kani::any();
    let base: i64 = kani::any();
    kani::assume((base as i128) - (gap_start as i128) > GAP_STEP_BOUND as i128);
    let b = gap_datagram(gap_start, base);
    let cap = sp::Capture::new();
    let mut p = sp::participant(&cap, 0);
    p.domain_participant.builtin_subscriber.dcps_publication_reader.transport_reader.add_matched_writer(&writer_proxy());
    p.handle_data(&b[..], &rt());
    core::mem::forget(p);
}

// @check props=C06 tier=thorough timeout=1800 unwind_violation=1
// @desc GAP from a matched writer outside the recorded trigger (base - gap_start <= 8, any sign): handle_data returns without panic within the unwinding bound; afterwards the proxy's available_changes_max covers the gap when it starts at the next expected sequence number
// @bounds real participant, one matched writer proxy; gap_start / base symbolic over i64 with base - gap_start <= 8 (negative = empty range), empty bitmap; unwind 30 (an unwinding failure = termination bound exceeded)
// @assume NOT trigger KF-C06-2: gapList.base - gapStart <= 8
// @assume critical_section::acquire/release stubbed (support_cs.rs)
// @enc dcps::dcps_domain_participant::communication_methods::DcpsDomainParticipant::handle_data
// @enc rtps::writer_proxy::RtpsWriterProxy::irrelevant_change_set
#[kani::proof]
#[kani::unwind(30)]
#[kani::stub(critical_section::acquire, super::support_cs::cs_acquire)]
#[kani::stub(critical_section::release, super::support_cs::cs_release)]
fn c06_gap_range_loop__rest() {
    let gap_start: i64 = kani::any();
    let base: i64 = kani::any();
    kani::assume((base as i128) - (gap_start as i128) <= 8);
    let b = gap_datagram(gap_start, base);
    let cap = sp::Capture::new();
    let mut p = sp::participant(&cap, 0);
    p.domain_participant.builtin_subscriber.dcps_publication_reader.transport_reader.add_matched_writer(&writer_proxy());
    p.handle_data(&b[..], &rt());
    let wp = p.domain_participant.builtin_subscriber.dcps_publication_reader.transport_reader.matched_writer_lookup(Guid::new(W_PREFIX, W_ID));
    match wp {
        Some(wp) => {
            if gap_start == 1 && base > 1 {
                assert!(wp.available_changes_max() == base - 1, "C06: GAP [1, base) not applied");
            }
            kani::cover!(gap_start == 1 && base == 9, "an 8-element gap is applied");
            kani::cover!(base < gap_start, "a GAP with base < gap_start is ignored");
        }
        None => assert!(false, "C06: matched writer proxy disappeared"),
    }
    core::mem::forget(p);
}

// @check props=C06 tier=quick known=KF-C06-4
// @desc KNOWN DEFECT (builds with overflow checks): SequenceNumberSet::set() - used by the GAP and ACKNACK handlers - computes `base + delta_n as i64`; a set decoded from the wire with a base near i64::MAX and a set bit overflows
// @bounds 16 wire bytes: bitmapBase = i64::MAX, numBits = 2, bitmap word symbolic with bit 1 set; both endiannesses; unwind 5
// @assume trigger: base + (offset of a set bit) > i64::MAX
// @enc rtps_messages::submessage_elements::SequenceNumberSet::try_read_from_bytes
// @enc rtps_messages::submessage_elements::SequenceNumberSet::set
#[kani::proof]
#[kani::unwind(5)]
fn c06_sequence_number_set_iter_overflow__known() {
    let le: bool = kani::any();
    let word: u32 = kani::any();
    kani::assume(word & 0x4000_0000 != 0);
    let mut b = [0u8; 16];
    if le {
        put4(&mut b, 0, i32::MAX.to_le_bytes());
        put4(&mut b, 4, u32::MAX.to_le_bytes());
        put4(&mut b, 8, 2u32.to_le_bytes());
        put4(&mut b, 12, word.to_le_bytes());
    } else {
        put4(&mut b, 0, i32::MAX.to_be_bytes());
        put4(&mut b, 4, u32::MAX.to_be_bytes());
        put4(&mut b, 8, 2u32.to_be_bytes());
        put4(&mut b, 12, word.to_be_bytes());
    }
    let e = if le { Endianness::LittleEndian } else { Endianness::BigEndian };
    let mut d = &b[..];
    if let Ok(s) = SequenceNumberSet::try_read_from_bytes(&mut d, &e) {
        assert!(s.base() == i64::MAX, "C06: harness image");
        let n = s.set().count();
        assert!(n <= 2, "C06: more members than numBits");
    }
}

// @check props=C06 tier=quick
// @desc SequenceNumberSet::set() outside the recorded trigger: a set decoded from arbitrary wire bytes with base <= i64::MAX - 256 yields at most numBits members, each in [base, base + numBits), without panic
// @bounds 16 symbolic wire bytes, numBits <= 8 (the iterator's inner skip loop nested in the consumer's loop: 32 bits did not finish in 900 s), both endiannesses; unwind 10
// @assume NOT trigger KF-C06-4: base <= i64::MAX - 256; numBits <= 8
// @enc rtps_messages::submessage_elements::SequenceNumberSet::try_read_from_bytes
// @enc rtps_messages::submessage_elements::SequenceNumberSet::set
#[kani::proof]
#[kani::unwind(10)]
fn c06_sequence_number_set_iter__rest() {
    let le: bool = kani::any();
    let b: [u8; 16] = kani::any();
    let e = if le { Endianness::LittleEndian } else { Endianness::BigEndian };
    let mut d = &b[..];
    if let Ok(s) = SequenceNumberSet::try_read_from_bytes(&mut d, &e) {
        kani::assume(s.base() <= i64::MAX - 256);
        let nb = if le { u32::from_le_bytes([b[8], b[9], b[10], b[11]]) } else { u32::from_be_bytes([b[8], b[9], b[10], b[11]]) };
        kani::assume(nb <= 8);
        let mut n = 0usize;
        for x in s.set() {
            assert!(x >= s.base() && x - s.base() < 8, "C06: member outside [base, base + numBits)");
            n += 1;
        }
        assert!(n <= 8, "C06: more members than numBits");
        kani::cover!(n == 8 && s.base() < 0, "a full 8-bit set with a negative base is iterated");
    }
}

// ------------------------------------------------------------------------------------------
// 3. fragment arithmetic
// ------------------------------------------------------------------------------------------

fn proxy() -> RtpsWriterProxy {
    RtpsWriterProxy::new(Guid::new(W_PREFIX, W_ID), &[], &[], ENTITYID_UNKNOWN, ReliabilityKind::Reliable)
}

fn any_frag(sn: i64, start: u32, n: u16, fsize: u16, dsize: u32) -> DataFragSubmessage {
    let payload: [u8; 2] = kani::any();
    DataFragSubmessage::new(
        false,
        false,
        kani::any(),
        R_ID,
        W_ID,
        sn,
        start,
        n,
        fsize,
        dsize,
        ParameterList::empty(),
        SerializedDataFragment::from(&payload[..]),
    )
}

// @check props=C06 tier=quick known=KF-C06-3
// @desc KNOWN DEFECT: a DATA_FRAG with fragmentSize = 0 buffered in a writer proxy (RtpsStatefulReader::on_data_frag_submessage does push_data_frag + reconstruct_data_from_frag for the expected sequence number of a matched writer) makes total_fragments_expected compute `data_size / fragment_size`: division by zero, panic in every build profile
// @bounds writer proxy in its initial state; one DATA_FRAG: writer_sn symbolic, fragment_size = 0, fragmentStartingNum / fragmentsInSubmessage / dataSize symbolic, 2-byte payload; unwind 3
// @assume trigger: fragment_size == 0 and the fragment is buffered (writer GUID matched, writer_sn expected)
// @enc rtps::writer_proxy::RtpsWriterProxy::push_data_frag
// @enc rtps::writer_proxy::RtpsWriterProxy::reconstruct_data_from_frag
// @enc rtps::writer_proxy::total_fragments_expected
#[kani::proof]
#[kani::unwind(3)]
fn c06_data_frag_zero_fragment_size__known() {
    let mut p = proxy();
    let sn: i64 = kani::any();
    let f = any_frag(sn, kani::any(), kani::any(), 0, kani::any());
    p.push_data_frag(f);
    let r = p.reconstruct_data_from_frag(sn);
    core::mem::forget(r);
    core::mem::forget(p);
}

// @check props=C06 tier=quick unwind_violation=1
// @desc DATA_FRAG buffered in a writer proxy outside the recorded trigger (fragment_size >= 1): any writer_sn (i64), fragmentStartingNum / dataSize (u32), fragmentSize (u16 >= 1), fragmentsInSubmessage <= 1: push_data_frag + reconstruct_data_from_frag return without panic (no overflow in total_fragments_expected, no division by zero) within the unwinding bound; a DATA is reconstructed only when the fragment starts at 1 and (for one fragment) dataSize <= fragmentSize, with the fragment's payload
// @bounds writer proxy in its initial state, one DATA_FRAG with a 2-byte payload; fragmentsInSubmessage <= 1 (the reassembly loop runs fragmentsInSubmessage + 1 times when the fragment count matches); unwind 4
// @assume NOT trigger KF-C06-3: fragment_size != 0; fragmentsInSubmessage <= 1
// @enc rtps::writer_proxy::RtpsWriterProxy::push_data_frag
// @enc rtps::writer_proxy::RtpsWriterProxy::reconstruct_data_from_frag
// @enc rtps::writer_proxy::total_fragments_expected
#[kani::proof]
#[kani::unwind(4)]
fn c06_data_frag_arithmetic__rest() {
    let mut p = proxy();
    let sn: i64 = kani::any();
    let fsize: u16 = kani::any();
    let n: u16 = kani::any();
    let start: u32 = kani::any();
    let dsize: u32 = kani::any();
    kani::assume(fsize != 0 && n <= 1);
    let f = any_frag(sn, start, n, fsize, dsize);
    p.push_data_frag(f);
    let r = p.reconstruct_data_from_frag(sn);
    if let Some(d) = &r {
        assert!(start == 1, "C06: DATA reconstructed without the first fragment");
        if n == 1 {
            assert!(dsize >= 1 && dsize <= fsize as u32, "C06: DATA reconstructed from an incomplete fragment set");
        }
        assert!(d.writer_sn() == sn && d.serialized_payload().len() == if n == 1 { 2 } else { 0 }, "C06: reconstructed DATA sequence number / payload length");
    }
    kani::cover!(r.is_some(), "a single-fragment sample is reassembled");
    kani::cover!(r.is_none() && dsize == u32::MAX && fsize == 1, "dataSize = u32::MAX with fragmentSize 1 is buffered without overflow");
    core::mem::forget(r);
    core::mem::forget(p);
}
