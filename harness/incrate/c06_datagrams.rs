// C06 — no datagram can crash, hang or exhaust a participant.
// Decided per stage (whole-message parsing of arbitrary bytes is not tractable, see C07):
//   1. dispatcher: well-formed messages with symbolic field values through the real parser, the
//      real MessageReceiver and the real DcpsDomainParticipant::handle_data;
//   2. per-handler step on a real participant whose built-in publications reader has a matched
//      writer proxy ("claims to come from a discovered participant"): GAP;
//   3. fragment arithmetic of RtpsStatefulReader::on_data_frag_submessage / RtpsWriterProxy;
//   4. allocation bounds of the element readers: asserted in the C07 harnesses (SequenceNumberSet,
//      LocatorList, ParameterList, discovery locator list) - not repeated here.
// Datagram images are written little-endian by the harness (field order of RTPS 2.x clause 9.4);
// that the real encoder produces exactly these layouts is C08's subject.
//
// Four defects found by these harnesses (INFO_REPLY reaching todo!(), the GAP range loop running an
// attacker-chosen number of times, DATA_FRAG with fragmentSize 0 dividing by zero, SequenceNumberSet
// members overflowing i64) and three found under C07 have been repaired in /repo; the former trigger
// scenarios are now ordinary obligations asserting the repaired behaviour.
use alloc::vec::Vec;

use super::support_participant as sp;

use crate::infrastructure::time::Time;
use crate::rtps::message_receiver::MessageReceiver;
use crate::rtps::writer_proxy::RtpsWriterProxy;
use crate::rtps_messages::overall_structure::{Endianness, RtpsMessageRead, RtpsSubmessageReadKind, TryReadFromBytes};
use crate::rtps_messages::overall_structure::SubmessageHeaderRead;
use crate::rtps_messages::submessage_elements::{ParameterList, SequenceNumberSet, SerializedDataFragment};
use crate::rtps_messages::submessages::data_frag::DataFragSubmessage;
use crate::transport::types::{
    DurabilityKind, EntityId, Guid, GuidPrefix, ReliabilityKind, WriterProxy, ENTITYID_UNKNOWN,
};

const W_PREFIX: GuidPrefix = [0x41; 12];
/// ENTITYID_SEDP_BUILTIN_PUBLICATIONS_ANNOUNCER
const W_ID: EntityId = EntityId::new([0, 0, 3], 0xc2);
const R_ID: EntityId = EntityId::new([0, 0, 3], 0xc7);

fn rt() -> sp::VRuntime {
    sp::VRuntime { now: Time::new(1, 0) }
}

fn writer_proxy() -> WriterProxy {
    WriterProxy {
        remote_writer_guid: Guid::new(W_PREFIX, W_ID),
        remote_group_entity_id: ENTITYID_UNKNOWN,
        reliability_kind: ReliabilityKind::Reliable,
        durability_kind: DurabilityKind::TransientLocal,
        unicast_locator_list: Vec::new(),
        multicast_locator_list: Vec::new(),
    }
}

/// 20-byte RTPS header: protocol id, version 2.4, vendor id, `prefix`.
fn put_header(b: &mut [u8], prefix: &GuidPrefix) {
    b[0] = b'R';
    b[1] = b'T';
    b[2] = b'P';
    b[3] = b'S';
    b[4] = 2;
    b[5] = 4;
    b[6] = 1;
    b[7] = 20;
    let mut i = 0;
    while i < 12 {
        b[8 + i] = prefix[i];
        i += 1;
    }
}
fn put_sub(b: &mut [u8], at: usize, id: u8, flags: u8, len: u16) {
    b[at] = id;
    b[at + 1] = flags;
    b[at + 2] = len as u8;
    b[at + 3] = (len >> 8) as u8;
}
fn put4(b: &mut [u8], at: usize, v: [u8; 4]) {
    b[at] = v[0];
    b[at + 1] = v[1];
    b[at + 2] = v[2];
    b[at + 3] = v[3];
}
fn put_sn(b: &mut [u8], at: usize, sn: i64) {
    put4(b, at, ((sn >> 32) as i32).to_le_bytes());
    put4(b, at + 4, (sn as u32).to_le_bytes());
}

// ------------------------------------------------------------------------------------------
// 1. dispatcher
//
// Datagram images are local arrays of at most 60 bytes whose framing bytes are concrete, and no
// submessage has length 0: measured, with a 64-byte array or a zero-length submessage (the
// `submessage_length == 0 && matches!(Data | DataFrag)` special case) CBMC no longer sees the next
// submessage id as a constant and explores all twelve decoders at every position (> 900 s).
// ------------------------------------------------------------------------------------------

/// [INFO_REPLY (numLocators 0), HEARTBEAT_FRAG] from `prefix`: 56 bytes.
fn info_reply_datagram(prefix: &GuidPrefix, sn: i64, last_frag: u32, count: i32) -> [u8; 56] {
    let mut b = [0u8; 56];
    put_header(&mut b, prefix);
    put_sub(&mut b, 20, 0x0f, 1, 4); // INFO_REPLY, multicast flag clear
    put4(&mut b, 24, 0u32.to_le_bytes()); // numLocators 0
    put_sub(&mut b, 28, 0x13, 1, 24); // HEARTBEAT_FRAG
    put4(&mut b, 32, kani::any());
    put4(&mut b, 36, kani::any());
    put_sn(&mut b, 40, sn);
    put4(&mut b, 48, last_frag.to_le_bytes());
    put4(&mut b, 52, count.to_le_bytes());
    b
}

// @check props=C06 tier=quick
// @desc a datagram [INFO_REPLY, HEARTBEAT_FRAG] is parsed by the real parser and iterated by the real MessageReceiver without panic (formerly `InfoReply(_) => todo!()`, repaired in /repo): the INFO_REPLY is skipped and the following HEARTBEAT_FRAG is still dispatched with its wire values
// @bounds 56-byte datagram: any guid prefix, INFO_REPLY with an empty unicast list, HEARTBEAT_FRAG with symbolic ids / writerSN / lastFragmentNum / count; unwind 14
// @enc rtps_messages::overall_structure::RtpsMessageRead::try_from
// @enc rtps::message_receiver::MessageReceiver::next
#[kani::proof]
#[kani::unwind(14)]
fn c06_info_reply_ignored() {
    let prefix: GuidPrefix = kani::any();
    let (sn, last_frag, count): (i64, u32, i32) = (kani::any(), kani::any(), kani::any());
    let b = info_reply_datagram(&prefix, sn, last_frag, count);
    match RtpsMessageRead::try_from(&b[..]) {
        Ok(m) => {
            assert!(m.submessages().len() == 2, "C06: INFO_REPLY and HEARTBEAT_FRAG parsed");
            let mut mr = MessageReceiver::new(&m);
            match mr.next() {
                Some(RtpsSubmessageReadKind::HeartbeatFrag(h)) => {
                    assert!(h._writer_sn() == sn && h._last_fragment_num() == last_frag && h.count() == count, "C06: HEARTBEAT_FRAG after INFO_REPLY carries its wire values");
                }
                _ => assert!(false, "C06: the submessage after INFO_REPLY is not dispatched"),
            }
            assert!(mr.next().is_none(), "C06: nothing after the last submessage");
            assert!(mr.source_guid_prefix() == prefix, "C06: source prefix is the header's");
            kani::cover!(sn < 0 && count == i32::MAX, "extreme HEARTBEAT_FRAG values pass the dispatcher after an INFO_REPLY");
            core::mem::forget(m);
        }
        Err(_) => assert!(false, "C06: well-formed message rejected"),
    }
}

// @check props=C06 tier=quick
// @desc dispatcher on a well-formed message made only of interpreter submessages, [INFO_SRC, INFO_REPLY], with symbolic version, vendor and prefixes: parsed by the real parser and iterated by the real MessageReceiver until exhaustion: no panic, nothing is yielded, the receiver's source prefix is the INFO_SRC prefix
// @bounds one 52-byte datagram, value fields symbolic; submessage ids / flags / lengths concrete; unwind 14
// @enc rtps_messages::overall_structure::RtpsMessageRead::try_from
// @enc rtps::message_receiver::MessageReceiver::next
#[kani::proof]
#[kani::unwind(14)]
fn c06_receiver_dispatch_source() {
    let prefix: GuidPrefix = kani::any();
    let src: GuidPrefix = kani::any();
    let mut c = [0u8; 52];
    put_header(&mut c, &prefix);
    put_sub(&mut c, 20, 0x0c, 1, 20); // INFO_SRC: unused(4) version(2) vendor(2) prefix(12)
    c[28] = kani::any();
    c[29] = kani::any();
    c[30] = kani::any();
    c[31] = kani::any();
    let mut i = 0;
    while i < 12 {
        c[32 + i] = src[i];
        i += 1;
    }
    put_sub(&mut c, 44, 0x0f, 1, 4); // INFO_REPLY, numLocators 0
    match RtpsMessageRead::try_from(&c[..]) {
        Ok(m) => {
            assert!(m.submessages().len() == 2, "C06: two submessages parsed");
            let mut mr = MessageReceiver::new(&m);
            assert!(mr.next().is_none(), "C06: interpreter submessages are not yielded");
            assert!(mr.source_guid_prefix() == src, "C06: source prefix after INFO_SRC");
            assert!(mr.source_timestamp().is_none(), "C06: timestamp without INFO_TS");
            kani::cover!(src[0] != prefix[0], "a source prefix different from the header's is recorded");
            core::mem::forget(m);
        }
        Err(_) => assert!(false, "C06: well-formed message rejected"),
    }
}

// @parked (undecided within the caps: see ptab "outside"; not indexed, not compiled as a proof) props=C06 tier=thorough
// @desc (NOT decided in the quick configuration: the solver ran out of memory in 2 of 3 runs) dispatcher on a well-formed message [INFO_TS, INFO_SRC] with symbolic timestamp, version, vendor and prefixes: parsed by the real parser and iterated by the real MessageReceiver until exhaustion: no panic, nothing is yielded, the receiver holds the INFO_SRC prefix and the INFO_TS timestamp
// @bounds one 56-byte datagram, all value fields symbolic over their full domain; submessage ids / flags / lengths concrete; unwind 14
// @enc rtps_messages::overall_structure::RtpsMessageRead::try_from
// @enc rtps::message_receiver::MessageReceiver::next
// #[kani::proof]
// #[kani::unwind(14)]
#[allow(dead_code)]
fn c06_receiver_dispatch_interpreter() {
    let prefix: GuidPrefix = kani::any();
    let (sec, frac): (u32, u32) = (kani::any(), kani::any());
    {
        let src: GuidPrefix = kani::any();
        let mut c = [0u8; 56];
        put_header(&mut c, &prefix);
        put_sub(&mut c, 20, 0x09, 1, 8); // INFO_TS
        put4(&mut c, 24, sec.to_le_bytes());
        put4(&mut c, 28, frac.to_le_bytes());
        put_sub(&mut c, 32, 0x0c, 1, 20); // INFO_SRC: unused(4) version(2) vendor(2) prefix(12)
        c[40] = kani::any();
        c[41] = kani::any();
        c[42] = kani::any();
        c[43] = kani::any();
        let mut i = 0;
        while i < 12 {
            c[44 + i] = src[i];
            i += 1;
        }
        match RtpsMessageRead::try_from(&c[..]) {
            Ok(m) => {
                assert!(m.submessages().len() == 2, "C06: two submessages parsed");
                let mut mr = MessageReceiver::new(&m);
                assert!(mr.next().is_none(), "C06: interpreter submessages are not yielded");
                assert!(mr.source_guid_prefix() == src, "C06: source prefix after INFO_SRC");
                match mr.source_timestamp() {
                    Some(t) => assert!(t.seconds() == sec && t.fraction() == frac, "C06: timestamp after INFO_TS"),
                    None => assert!(false, "C06: timestamp lost"),
                }
                kani::cover!(sec == u32::MAX && src[0] != prefix[0], "a timestamp with seconds = u32::MAX and a different source prefix are recorded");
                core::mem::forget(m);
            }
            Err(_) => assert!(false, "C06: well-formed message rejected"),
        }
    }
}

// @parked (undecided within the caps: see ptab "outside"; not indexed, not compiled as a proof) props=C06 tier=thorough
// @desc dispatcher on a well-formed message [INFO_TS, HEARTBEAT_FRAG]: exactly the HEARTBEAT_FRAG is yielded, with the INFO_TS timestamp and the header's prefix as source (60-byte datagram: ran out of memory in the quick configuration)
// @bounds one 60-byte datagram; unwind 14
// @enc rtps_messages::overall_structure::RtpsMessageRead::try_from
// @enc rtps::message_receiver::MessageReceiver::next
// #[kani::proof]
// #[kani::unwind(14)]
#[allow(dead_code)]
fn c06_receiver_dispatch_timestamp_entity() {
    let prefix: GuidPrefix = kani::any();
    let (sec, frac): (u32, u32) = (kani::any(), kani::any());
    {
        let (sn, last_frag, count): (i64, u32, i32) = (kani::any(), kani::any(), kani::any());
        let mut b = [0u8; 60];
        put_header(&mut b, &prefix);
        put_sub(&mut b, 20, 0x09, 1, 8); // INFO_TS
        put4(&mut b, 24, sec.to_le_bytes());
        put4(&mut b, 28, frac.to_le_bytes());
        put_sub(&mut b, 32, 0x13, 1, 24); // HEARTBEAT_FRAG
        put4(&mut b, 36, kani::any());
        put4(&mut b, 40, kani::any());
        put_sn(&mut b, 44, sn);
        put4(&mut b, 52, last_frag.to_le_bytes());
        put4(&mut b, 56, count.to_le_bytes());
        match RtpsMessageRead::try_from(&b[..]) {
            Ok(m) => {
                assert!(m.submessages().len() == 2, "C06: two submessages parsed");
                let mut mr = MessageReceiver::new(&m);
                let mut yielded = 0;
                while let Some(s) = mr.next() {
                    yielded += 1;
                    match s {
                        RtpsSubmessageReadKind::HeartbeatFrag(h) => {
                            assert!(h._writer_sn() == sn && h._last_fragment_num() == last_frag && h.count() == count, "C06: HEARTBEAT_FRAG values");
                        }
                        _ => assert!(false, "C06: MessageReceiver yielded an interpreter submessage"),
                    }
                    assert!(mr.source_guid_prefix() == prefix, "C06: source prefix is the header's");
                    match mr.source_timestamp() {
                        Some(t) => assert!(t.seconds() == sec && t.fraction() == frac, "C06: timestamp after INFO_TS"),
                        None => assert!(false, "C06: timestamp lost"),
                    }
                }
                assert!(yielded == 1, "C06: exactly the HEARTBEAT_FRAG is yielded");
                kani::cover!(sn == i64::MIN && count < 0, "extreme HEARTBEAT_FRAG values pass the dispatcher");
                core::mem::forget(m);
            }
            Err(_) => assert!(false, "C06: well-formed message rejected"),
        }
    }
}

// ------------------------------------------------------------------------------------------
// 2. per-handler steps on a real participant
// ------------------------------------------------------------------------------------------

// @parked (undecided within the caps: see ptab "outside"; not indexed, not compiled as a proof) props=C06 tier=thorough timeout=1800
// @desc (NOT decided: > 900 s - MessageReceiver yields a reference into a heap Vec, so CBMC explores every handler arm of handle_data, including the DATA / ACKNACK paths, on a symbolic submessage) the datagram [INFO_REPLY, HEARTBEAT_FRAG] handed to DcpsDomainParticipant::handle_data of a freshly constructed participant: no panic (formerly todo!()), the worker returns, nothing is sent
// @bounds 56-byte datagram, symbolic prefix / ids / values; real participant; unwind 4 (+ per-loop bounds from the ptab entry: the handlers' loops over the 5 built-in readers 7, status-kind tables 14)
// @assume critical_section::acquire/release stubbed (support_cs.rs)
// @enc dcps::dcps_domain_participant::communication_methods::DcpsDomainParticipant::handle_data
// @enc rtps::message_receiver::MessageReceiver::next
// #[kani::proof]
// #[kani::unwind(4)]
// #[kani::stub(critical_section::acquire, super::support_cs::cs_acquire)]
// #[kani::stub(critical_section::release, super::support_cs::cs_release)]
#[allow(dead_code)]
fn c06_info_reply_handle_data() {
    let prefix: GuidPrefix = kani::any();
    let b = info_reply_datagram(&prefix, kani::any(), kani::any(), kani::any());
    let cap = sp::Capture::new();
    let mut p = sp::participant(&cap, 0);
    p.handle_data(&b[..], &rt());
    assert!(cap.count() == 0, "C06: INFO_REPLY / HEARTBEAT_FRAG from an unknown participant make a fresh participant send something");
    kani::cover!(prefix[0] == 0x41, "the datagram is processed to the end");
    core::mem::forget(p);
}

/// 52-byte datagram from W_PREFIX carrying GAP(gap_start, base, numBits = 0) of writer W_ID.
fn gap_datagram(gap_start: i64, base: i64) -> [u8; 52] {
    let mut b = [0u8; 52];
    put_header(&mut b, &W_PREFIX);
    put_sub(&mut b, 20, 0x08, 1, 28);
    put4(&mut b, 24, kani::any());
    put4(&mut b, 28, [0, 0, 3, 0xc2]);
    put_sn(&mut b, 32, gap_start);
    put_sn(&mut b, 40, base);
    put4(&mut b, 48, 0u32.to_le_bytes());
    b
}

// @parked (undecided within the caps: see ptab "outside"; not indexed, not compiled as a proof) props=C06 tier=thorough timeout=1800 unwind_violation=1
// @desc (NOT decided: > 900 s, same reason as c06_info_reply_handle_data; the range operation itself is decided by c06_gap_range_proxy) GAP from a matched (discovered) writer with ARBITRARY i64 gapStart and gapList.base - including ranges of 2^63 sequence numbers (formerly one loop iteration per sequence number, repaired in /repo with RtpsWriterProxy::irrelevant_change_range): handle_data returns without panic within the unwinding bound; the proxy skips the range exactly when it starts at or before the next expected sequence number and ends after it
// @bounds real participant whose built-in publications reader has one matched writer proxy in its initial state; one 52-byte GAP, gapStart / base symbolic over the full i64 range, empty bitmap; unwind 4, handler loops over the 5 built-in readers 7 (an unwinding failure = loop count controlled by the datagram)
// @assume critical_section::acquire/release stubbed (support_cs.rs)
// @enc dcps::dcps_domain_participant::communication_methods::DcpsDomainParticipant::handle_data
// @enc dcps::dcps_domain_participant::communication_methods::DcpsDomainParticipant::handle_gap_submessage
// @enc rtps::writer_proxy::RtpsWriterProxy::irrelevant_change_range
// #[kani::proof]
// #[kani::unwind(4)]
// #[kani::stub(critical_section::acquire, super::support_cs::cs_acquire)]
// #[kani::stub(critical_section::release, super::support_cs::cs_release)]
#[allow(dead_code)]
fn c06_gap_range_handle_data() {
    let gap_start: i64 = kani::any();
    let base: i64 = kani::any();
    let b = gap_datagram(gap_start, base);
    let cap = sp::Capture::new();
    let mut p = sp::participant(&cap, 0);
    p.domain_participant.builtin_subscriber.dcps_publication_reader.transport_reader.add_matched_writer(&writer_proxy());
    p.handle_data(&b[..], &rt());
    let wp = p.domain_participant.builtin_subscriber.dcps_publication_reader.transport_reader.matched_writer_lookup(Guid::new(W_PREFIX, W_ID));
    match wp {
        Some(wp) => {
            let skipped = gap_start <= 1 && base > 1;
            assert!(wp.available_changes_max() == if skipped { base - 1 } else { 0 }, "C06: GAP range applied wrongly");
            kani::cover!(gap_start == i64::MIN && base == i64::MAX, "a GAP over the whole sequence number range is handled in one step");
            kani::cover!(base < gap_start, "a GAP with base < gapStart is ignored");
        }
        None => assert!(false, "C06: matched writer proxy disappeared"),
    }
    core::mem::forget(p);
}

// @check props=C06 tier=quick unwind_violation=1
// @desc the operation handle_gap_submessage now performs on the looked-up writer proxy (communication_methods.rs: `writer_proxy.irrelevant_change_range(gap_start, gap_list.base())`, formerly one irrelevant_change_set per sequence number) for ARBITRARY i64 gapStart / base - including ranges of 2^63 sequence numbers - from the proxy's initial state and from a state with symbolic first-available / highest-received numbers: returns within the unwinding bound without panic; available_changes_max becomes base - 1 exactly when the range starts at or before the next expected number and ends after it, and is unchanged otherwise
// @bounds one RtpsWriterProxy, empty fragment buffer; pre-state: lost_changes_update(first) with first in [-2^62, 2^62], then optionally one earlier range [1, h+1) with h in [0, 2^62]; gapStart / base over the full i64 range; unwind 3
// @assume pre-state numbers within +-2^62 (sequence numbers at the i64 limits: see KF-C06-5)
// @enc rtps::writer_proxy::RtpsWriterProxy::irrelevant_change_range
// @enc rtps::writer_proxy::RtpsWriterProxy::available_changes_max
#[kani::proof]
#[kani::unwind(3)]
fn c06_gap_range_proxy() {
    let mut p = proxy();
    let first: i64 = kani::any();
    let h: i64 = kani::any();
    kani::assume(first >= -(1i64 << 62) && first <= (1i64 << 62) && h >= 0 && h <= (1i64 << 62));
    p.lost_changes_update(first);
    if first <= 1 && h > 0 {
        p.irrelevant_change_range(1, h + 1);
    }
    let before = p.available_changes_max();
    let gap_start: i64 = kani::any();
    let base: i64 = kani::any();
    p.irrelevant_change_range(gap_start, base);
    let after = p.available_changes_max();
    let covers_next = base > gap_start && gap_start <= before + 1 && base > before + 1;
    assert!(after == if covers_next { base - 1 } else { before }, "C06: GAP range applied wrongly");
    kani::cover!(gap_start == i64::MIN && base == i64::MAX && covers_next, "a GAP over the whole sequence number range is applied in one step");
    kani::cover!(!covers_next && base > gap_start, "a GAP that does not cover the next expected number changes nothing");
    core::mem::forget(p);
}

// @check props=C06 tier=quick known=KF-C06-5
// @desc KNOWN DEFECT (builds with overflow checks): a HEARTBEAT with firstSN = i64::MIN from a matched writer is stored by lost_changes_update; the next available_changes_max() - called by write_message in the same handler, and by every later DATA / GAP / HEARTBEAT step - computes `first_available_seq_num - 1` and overflows
// @bounds one RtpsWriterProxy in its initial state; unwind 3
// @assume trigger: firstSN == i64::MIN
// @enc rtps::writer_proxy::RtpsWriterProxy::lost_changes_update
// @enc rtps::writer_proxy::RtpsWriterProxy::available_changes_max
#[kani::proof]
#[kani::unwind(3)]
fn c06_heartbeat_first_sn_min__known() {
    let mut p = proxy();
    p.lost_changes_update(i64::MIN);
    let m = p.available_changes_max();
    assert!(m >= 0, "C06: unreachable if the defect is present");
    core::mem::forget(p);
}

// @check props=C06 tier=quick
// @desc the proxy arithmetic of the HEARTBEAT step outside the recorded trigger: missing_changes_update(lastSN) and lost_changes_update(firstSN) with any lastSN and any firstSN > i64::MIN, then available_changes_max() and the bounds of missing_changes(): no panic; available_changes_max = max(firstSN - 1, 0)
// @bounds one RtpsWriterProxy in its initial state (highest received = 0); unwind 3
// @assume NOT trigger KF-C06-5: firstSN > i64::MIN
// @enc rtps::writer_proxy::RtpsWriterProxy::lost_changes_update
// @enc rtps::writer_proxy::RtpsWriterProxy::missing_changes_update
// @enc rtps::writer_proxy::RtpsWriterProxy::available_changes_max
// @enc rtps::writer_proxy::RtpsWriterProxy::missing_changes
#[kani::proof]
#[kani::unwind(3)]
fn c06_heartbeat_arithmetic__rest() {
    let mut p = proxy();
    let first: i64 = kani::any();
    let last: i64 = kani::any();
    kani::assume(first > i64::MIN);
    p.missing_changes_update(last);
    p.lost_changes_update(first);
    let m = p.available_changes_max();
    assert!(m == if first - 1 > 0 { first - 1 } else { 0 }, "C06: available_changes_max after a HEARTBEAT");
    let it = p.missing_changes();
    core::mem::forget(it);
    kani::cover!(first == i64::MAX && last == i64::MIN, "extreme HEARTBEAT numbers are stored without panic");
    core::mem::forget(p);
}

// ------------------------------------------------------------------------------------------
// 3. number ranges and fragment arithmetic
// ------------------------------------------------------------------------------------------

// @check props=C06 tier=quick
// @desc SequenceNumberSet decoded from arbitrary wire bytes: the decoder rejects sets whose last member would exceed i64::MAX (formerly set() overflowed, repaired in /repo), and set() on every accepted set yields at most numBits members, each in [base, base + numBits), without panic
// @bounds 16 symbolic wire bytes, numBits <= 8 for the iteration (the iterator's inner skip loop nested in the consumer's loop: 32 bits did not finish in 900 s), any base, both endiannesses; unwind 10
// @assume numBits <= 8 when the set is iterated (the rejection is asserted for every numBits)
// @enc rtps_messages::submessage_elements::SequenceNumberSet::try_read_from_bytes
// @enc rtps_messages::submessage_elements::SequenceNumberSet::set
#[kani::proof]
#[kani::unwind(10)]
fn c06_sequence_number_set_iteration() {
    let le: bool = kani::any();
    let b: [u8; 16] = kani::any();
    let e = if le { Endianness::LittleEndian } else { Endianness::BigEndian };
    let nb = if le { u32::from_le_bytes([b[8], b[9], b[10], b[11]]) } else { u32::from_be_bytes([b[8], b[9], b[10], b[11]]) };
    let mut d = &b[..];
    match SequenceNumberSet::try_read_from_bytes(&mut d, &e) {
        Ok(s) => {
            assert!(nb == 0 || s.base().checked_add(nb as i64 - 1).is_some(), "C06: SequenceNumberSet whose last member exceeds i64::MAX accepted");
            kani::assume(nb <= 8);
            let mut n = 0usize;
            for x in s.set() {
                assert!(x >= s.base() && x - s.base() < 8, "C06: member outside [base, base + numBits)");
                n += 1;
            }
            assert!(n <= 8, "C06: more members than numBits");
            kani::cover!(n == 8 && s.base() == i64::MAX - 7, "a full 8-bit set ending at i64::MAX is iterated");
        }
        Err(_) => {
            kani::cover!(nb == 2 && b[0] == 0xff && b[1] == 0xff, "a set reaching beyond i64::MAX is rejected");
        }
    }
}

fn proxy() -> RtpsWriterProxy {
    RtpsWriterProxy::new(Guid::new(W_PREFIX, W_ID), &[], &[], ENTITYID_UNKNOWN, ReliabilityKind::Reliable)
}

fn any_frag(sn: i64, start: u32, n: u16, fsize: u16, dsize: u32) -> DataFragSubmessage {
    let payload: [u8; 2] = kani::any();
    DataFragSubmessage::new(
        false,
        false,
        kani::any(),
        R_ID,
        W_ID,
        sn,
        start,
        n,
        fsize,
        dsize,
        ParameterList::empty(),
        SerializedDataFragment::from(&payload[..]),
    )
}

// @check props=C06 tier=quick
// @desc a DATA_FRAG submessage with fragmentSize = 0 never reaches the reassembly arithmetic: the real decoder rejects it (formerly accepted and divided by zero in total_fragments_expected, repaired in /repo), for both endiannesses and arbitrary other fields
// @bounds 36-byte DATA_FRAG body (32 fixed + 4 payload), inline-QoS flag clear, octetsToInlineQos 28, fragmentSize 0, everything else symbolic; submessage_length 0 (to end of buffer); unwind 4
// @enc rtps_messages::submessages::data_frag::DataFragSubmessage::try_from_bytes
#[kani::proof]
#[kani::unwind(4)]
fn c06_data_frag_zero_fragment_size_rejected() {
    for flags in [0b0001u8, 0b0100] {
        let le = flags & 1 == 1;
        let hb = [0x16u8, flags, 0, 0];
        let mut hs = &hb[..];
        let h = match SubmessageHeaderRead::try_read_from_bytes(&mut hs) {
            Ok(h) => h,
            Err(_) => {
                assert!(false, "C06: harness header");
                return;
            }
        };
        let mut b: [u8; 36] = kani::any();
        b[2] = if le { 28 } else { 0 };
        b[3] = if le { 0 } else { 28 };
        b[26] = 0;
        b[27] = 0;
        let r = DataFragSubmessage::try_from_bytes(&h, &b[..]);
        assert!(r.is_err(), "C06: DATA_FRAG with fragmentSize 0 accepted");
        kani::cover!(r.is_err() && !le, "the big-endian image is rejected");
        core::mem::forget(r);
    }
}

// @check props=C06 tier=quick unwind_violation=1
// @desc DATA_FRAG buffered in a writer proxy (the two calls RtpsStatefulReader::on_data_frag_submessage makes for an accepted fragment): any writer_sn (i64), fragmentStartingNum / dataSize (u32), fragmentSize (u16 >= 1, the decoder's invariant), fragmentsInSubmessage <= 1: push_data_frag + reconstruct_data_from_frag return without panic (no overflow in total_fragments_expected, no division by zero) within the unwinding bound; a DATA is reconstructed only when the fragment starts at 1 and (for one fragment) dataSize <= fragmentSize, with the fragment's payload
// @bounds writer proxy in its initial state, one DATA_FRAG with a 2-byte payload; fragmentsInSubmessage <= 1 (the reassembly loop runs fragmentsInSubmessage + 1 times when the fragment count matches); unwind 4
// @assume fragment_size != 0: invariant of every DataFragSubmessage the decoder yields (asserted by c06_data_frag_zero_fragment_size_rejected and the C07 DATA_FRAG obligations); fragmentsInSubmessage <= 1
// @enc rtps::writer_proxy::RtpsWriterProxy::push_data_frag
// @enc rtps::writer_proxy::RtpsWriterProxy::reconstruct_data_from_frag
// @enc rtps::writer_proxy::total_fragments_expected
#[kani::proof]
#[kani::unwind(4)]
fn c06_data_frag_arithmetic() {
    let mut p = proxy();
    let sn: i64 = kani::any();
    let fsize: u16 = kani::any();
    let n: u16 = kani::any();
    let start: u32 = kani::any();
    let dsize: u32 = kani::any();
    kani::assume(fsize != 0 && n <= 1);
    let f = any_frag(sn, start, n, fsize, dsize);
    p.push_data_frag(f);
    let r = p.reconstruct_data_from_frag(sn);
    if let Some(d) = &r {
        assert!(start == 1, "C06: DATA reconstructed without the first fragment");
        if n == 1 {
            assert!(dsize >= 1 && dsize <= fsize as u32, "C06: DATA reconstructed from an incomplete fragment set");
        }
        assert!(d.writer_sn() == sn && d.serialized_payload().len() == if n == 1 { 2 } else { 0 }, "C06: reconstructed DATA sequence number / payload length");
    }
    kani::cover!(r.is_some(), "a single-fragment sample is reassembled");
    kani::cover!(r.is_none() && dsize == u32::MAX && fsize == 1, "dataSize = u32::MAX with fragmentSize 1 is buffered without overflow");
    core::mem::forget(r);
    core::mem::forget(p);
}
