// Feasibility probes (not property checks).
use alloc::sync::Arc;
use alloc::task::Wake;
use core::future::Future;
use core::pin::Pin;
use core::sync::atomic::{AtomicUsize, Ordering};
use core::task::{Context, Poll, Waker};

use crate::dcps::channels::oneshot::oneshot;
use crate::rtps_messages::overall_structure::SubmessageHeaderRead;
use crate::rtps_messages::submessages::ack_nack::AckNackSubmessage;

struct CountWake(AtomicUsize);
impl Wake for CountWake {
    fn wake(self: Arc<Self>) {
        self.0.fetch_add(1, Ordering::SeqCst);
    }
}


// @check props=PROBE tier=quick
// @desc oneshot: send then poll is Ready(value)
#[kani::proof]
#[kani::unwind(4)]
#[kani::stub(critical_section::acquire, super::support_cs::cs_acquire)]
#[kani::stub(critical_section::release, super::support_cs::cs_release)]
fn probe_oneshot() {
    let (tx, mut rx) = oneshot::<u8>();
    let cw = Arc::new(CountWake(AtomicUsize::new(0)));
    let waker = Waker::from(cw.clone());
    let mut cx = Context::from_waker(&waker);
    let first = Pin::new(&mut rx).poll(&mut cx);
    assert!(first.is_pending());
    let v: u8 = kani::any();
    tx.send(v);
    assert!(cw.0.load(Ordering::SeqCst) == 1);
    match Pin::new(&mut rx).poll(&mut cx) {
        Poll::Ready(Ok(x)) => assert!(x == v),
        _ => panic!("expected ready"),
    }
    kani::cover!(v == 7, "reach");
    core::mem::forget(rx);
}

// @check props=PROBE tier=quick
// @desc acknack decoder on 32 symbolic bytes
#[kani::proof]
#[kani::unwind(12)]
fn probe_acknack_decode() {
    let bytes: [u8; 36] = kani::any();
    let len: usize = kani::any();
    kani::assume(len <= 36);
    let mut data = &bytes[..len];
    if let Ok(h) = SubmessageHeaderRead::try_read_from_bytes(&mut data) {
        let r = AckNackSubmessage::try_from_bytes(&h, data);
        kani::cover!(r.is_ok(), "some input decodes");
        core::mem::forget(r);
    }
}

// @check props=PROBE tier=quick
// @desc participant fixture: construct + create publisher
#[kani::proof]
#[kani::unwind(20)]
#[kani::stub(critical_section::acquire, super::support_cs::cs_acquire)]
#[kani::stub(critical_section::release, super::support_cs::cs_release)]
fn probe_participant() {
    use super::support_participant as sp;
    use crate::infrastructure::qos::QosKind;
    let cap = sp::Capture::new();
    let mut p = sp::participant(&cap, 0);
    let rt = sp::VRuntime { now: crate::infrastructure::time::Time::new(1, 0) };
    p.publisher_counter = kani::any();
    kani::assume(p.publisher_counter < 200);
    let h = p.create_user_defined_publisher(QosKind::Default, None, sp::mask_from_bits(0), &rt);
    assert!(h.is_ok());
    kani::cover!(p.publisher_counter == 17, "reach");
    core::mem::forget(p);
}
