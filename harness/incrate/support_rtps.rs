// Shared support for the RTPS protocol harnesses (C01, C02, C03 kernel, C04, C05).
//
// Environment stubs implemented through the repository's own traits:
//  * `Capture`   — a `WriteMessage` that stores every datagram the code under test emits,
//  * `FixedClock` — a `Clock` returning a fixed instant (heartbeat timing is C31's subject),
// plus constructors for the concrete identities (GUIDs) and small symbolic payloads.
// Nothing in here re-implements protocol logic; the glue replicas (`glue_*`) mirror, statement by
// statement, the private functions `handle_heartbeat_submessage` / `handle_gap_submessage` of
// dds/src/dcps/dcps_domain_participant/communication_methods.rs, which are not reachable from a
// harness without building a whole participant (a source guard in vlib/ptab/rtps_proto.py fails
// the check when those statements change in /repo).
use alloc::sync::Arc;
use alloc::vec::Vec;
use core::cell::RefCell;

use crate::infrastructure::time::Time;
use crate::rtps::stateful_reader::RtpsStatefulReader;
use crate::rtps::stateful_writer::RtpsStatefulWriter;
use crate::rtps::writer_proxy::RtpsWriterProxy;
use crate::rtps_messages::error::RtpsMessageResult;
use crate::rtps_messages::overall_structure::{
    RtpsMessageHeader, RtpsMessageRead, RtpsMessageWrite, RtpsSubmessageReadKind, Submessage, SubmessageHeaderRead, Write,
};
use crate::rtps_messages::submessages::gap::GapSubmessage;
use crate::rtps_messages::submessages::heartbeat::HeartbeatSubmessage;
use crate::runtime::Clock;
use crate::transport::interface::WriteMessage;
use crate::transport::types::{
    CacheChange, ChangeKind, DurabilityKind, EntityId, Guid, GuidPrefix, Locator, ReaderProxy,
    ReliabilityKind, WriterProxy, ENTITYID_UNKNOWN,
};

pub const W_PREFIX: GuidPrefix = [1; 12];
pub const R_PREFIX: GuidPrefix = [2; 12];
pub const W_ID: EntityId = EntityId::new([0, 0, 1], 0x02);
pub const R_ID: EntityId = EntityId::new([0, 0, 2], 0x07);
pub const W_GUID: Guid = Guid::new(W_PREFIX, W_ID);
pub const R_GUID: Guid = Guid::new(R_PREFIX, R_ID);

/// Captures every datagram handed to the transport.
pub struct Capture {
    pub msgs: RefCell<Vec<Vec<u8>>>,
}
impl Capture {
    pub fn new() -> Self {
        Self { msgs: RefCell::new(Vec::new()) }
    }
    pub fn len(&self) -> usize {
        self.msgs.borrow().len()
    }
    pub fn take(&self) -> Vec<Vec<u8>> {
        core::mem::take(&mut *self.msgs.borrow_mut())
    }
}
impl WriteMessage for Capture {
    fn write_message(&self, buf: &[u8], _locators: &[Locator]) {
        self.msgs.borrow_mut().push(buf.to_vec());
    }
}

/// Discards datagrams (used while a pre-state is produced by real operations).
pub struct Discard;
impl WriteMessage for Discard {
    fn write_message(&self, _buf: &[u8], _locators: &[Locator]) {}
}

pub struct FixedClock;
impl Clock for FixedClock {
    fn now(&self) -> Time {
        Time::new(1, 0)
    }
}

/// Symbolic payload of symbolic length `0..=N` (explicit length variable).
pub fn any_payload<const N: usize>() -> (Arc<[u8]>, [u8; N], usize) {
    let bytes: [u8; N] = kani::any();
    let len: usize = kani::any();
    kani::assume(len <= N);
    (Arc::from(&bytes[..len]), bytes, len)
}

pub fn change(sn: i64, data_value: Arc<[u8]>) -> CacheChange {
    CacheChange {
        kind: ChangeKind::Alive,
        writer_guid: W_GUID,
        sequence_number: sn,
        source_timestamp: None,
        instance_handle: None,
        data_value,
    }
}

pub fn reader_proxy(reliability_kind: ReliabilityKind, durability_kind: DurabilityKind) -> ReaderProxy {
    ReaderProxy {
        remote_reader_guid: R_GUID,
        remote_group_entity_id: ENTITYID_UNKNOWN,
        reliability_kind,
        durability_kind,
        unicast_locator_list: Vec::new(),
        multicast_locator_list: Vec::new(),
        expects_inline_qos: false,
    }
}

pub fn writer_proxy(reliability_kind: ReliabilityKind) -> WriterProxy {
    WriterProxy {
        remote_writer_guid: W_GUID,
        remote_group_entity_id: ENTITYID_UNKNOWN,
        reliability_kind,
        durability_kind: DurabilityKind::Volatile,
        unicast_locator_list: Vec::new(),
        multicast_locator_list: Vec::new(),
    }
}

/// A reader with one matched writer proxy (W_GUID) in its initial state.
pub fn new_reader(reliability: ReliabilityKind) -> RtpsStatefulReader {
    let mut r = RtpsStatefulReader::new(R_GUID, reliability);
    r.add_matched_writer(&writer_proxy(reliability));
    r
}

/// Put the matched writer proxy into the state (first_available, last_available, highest_received)
/// using only the proxy's own public operations (the fields are private).
/// `highest` must be >= 0 (0 = nothing received yet, the constructor's value); the watermark is
/// raised with `received_change_set` (irrelevant_change_set only skips the next expected change).
pub fn set_proxy_state(r: &mut RtpsStatefulReader, first: i64, last: i64, highest: i64) {
    let wp = r.matched_writer_lookup(W_GUID).unwrap();
    wp.lost_changes_update(first);
    wp.missing_changes_update(last);
    wp.received_change_set(highest);
}

pub fn proxy(r: &mut RtpsStatefulReader) -> &mut RtpsWriterProxy {
    r.matched_writer_lookup(W_GUID).unwrap()
}

/// Replica of the per-reader body of `handle_heartbeat_submessage` (communication_methods.rs:605-626):
/// lookup of the writer proxy, then the statements of `glue_heartbeat_proxy`.
/// Returns true when the heartbeat was accepted (count fresh).
pub fn glue_heartbeat(r: &mut RtpsStatefulReader, hb: &HeartbeatSubmessage, src: GuidPrefix, out: &impl WriteMessage) -> bool {
    let writer_guid = Guid::new(src, hb.writer_id());
    let reader_guid = r.guid();
    let mut accepted = false;
    if let Some(writer_proxy) = r.matched_writer_lookup(writer_guid) {
        accepted = glue_heartbeat_proxy(writer_proxy, &reader_guid, hb, out);
    }
    accepted
}

/// The statements `handle_heartbeat_submessage` executes on the looked-up writer proxy, in the same
/// order and with the same expressions (only the receiver names differ: `hb` for
/// `heartbeat_submessage`, `out` for `self.transport.message_writer.as_ref()`).
pub fn glue_heartbeat_proxy(writer_proxy: &mut RtpsWriterProxy, reader_guid: &Guid, hb: &HeartbeatSubmessage, out: &impl WriteMessage) -> bool {
    if writer_proxy.last_received_heartbeat_count() < hb.count() {
        writer_proxy.set_last_received_heartbeat_count(hb.count());
        writer_proxy.missing_changes_update(hb.last_sn());
        writer_proxy.lost_changes_update(hb.first_sn());

        let must_send_acknacks = !hb.final_flag()
            || (!hb.liveliness_flag() && writer_proxy.missing_changes().count() > 0);
        writer_proxy.set_must_send_acknacks(must_send_acknacks);

        writer_proxy.write_message(reader_guid, out);
        true
    } else {
        false
    }
}

/// Replica of the per-reader body of `handle_gap_submessage` (communication_methods.rs:579-592).
pub fn glue_gap(r: &mut RtpsStatefulReader, gap: &GapSubmessage, src: GuidPrefix) {
    let writer_guid = Guid::new(src, gap.writer_id());
    if let Some(writer_proxy) = r.matched_writer_lookup(writer_guid) {
        glue_gap_proxy(writer_proxy, gap);
    }
}

/// The statements `handle_gap_submessage` executes on the looked-up writer proxy (since /repo commit
/// 7df85da: one range call for gapStart..gapList.base, then one call per bit of the bitmap).
pub fn glue_gap_proxy(writer_proxy: &mut RtpsWriterProxy, gap: &GapSubmessage) {
    writer_proxy.irrelevant_change_range(gap.gap_start(), gap.gap_list().base());

    for seq_num in gap.gap_list().set() {
        writer_proxy.irrelevant_change_set(seq_num)
    }
}

/// A stand-alone writer proxy (W_GUID) in its constructor state, as `add_matched_writer` builds it.
pub fn new_proxy(reliability: ReliabilityKind) -> RtpsWriterProxy {
    RtpsWriterProxy::new(W_GUID, &[], &[], ENTITYID_UNKNOWN, reliability)
}

/// Payload of symbolic length 0..=3 taken from `bytes`, every allocation of concrete size.
pub fn payload3(bytes: &[u8; 3], len: usize) -> Arc<[u8]> {
    match len {
        0 => Arc::from(&bytes[..0]),
        1 => Arc::from(&bytes[..1]),
        2 => Arc::from(&bytes[..2]),
        _ => Arc::from(&bytes[..3]),
    }
}

// ---------------------------------------------------------------------------------------------
// Datagram container stub.
//
// `RtpsMessageWrite::from_submessages` builds every datagram in a `Cursor<Vec<u8>>` that grows by
// `Vec::resize` (a byte-wise loop) at every element write and back-patches each submessage length.
// Writer/reader objects live in Vec heap buffers whose contents are opaque to CBMC's constant
// propagation, so all lengths/positions in that container are symbolic and every one of the dozen
// message construction sites of `write_message_reliable` is explored for every loop unwinding:
// measured, one DATA+HEARTBEAT datagram does not finish symbolic execution in 570 s, an ACKNACK with
// a symbolic bitmap runs out of 12 GB. Harnesses that must look at emitted datagrams therefore stub
// exactly that container (plus the two critical-section symbols, see support_cs.rs):
//
//   #[kani::stub(crate::rtps_messages::overall_structure::RtpsMessageWrite::from_submessages,
//                super::support_rtps::from_submessages_staged)]
//
// The replacement stages every submessage in its own fixed-capacity buffer - header and element
// encoders are the REAL ones (`Submessage::write_submessage_header_into_bytes` /
// `write_submessage_elements_into_bytes`), octetsToNextHeader is the real element length - appends
// the staged submessages (byte for byte what the real container concatenates after the 20-byte RTPS
// header) to a log the harness reads with `staged_sub(i, j)`, and returns a header-only
// `RtpsMessageWrite` to the caller, which hands it to `WriteMessage::write_message` as usual (the
// `Sent` writer counts those calls; harnesses assert sent == staged). The real container is
// exercised by C08 (fam-rtps-msg).
pub const SUB_CAP: usize = 48;
pub const MAX_SUBS: usize = 4;
pub const LOG_CAP: usize = 5;
/// Fixed-capacity byte sink implementing the crate's `Write`.
#[derive(Clone, Copy)]
pub struct Stage<const N: usize> {
    pub buf: [u8; N],
    pub pos: usize,
}
impl<const N: usize> Stage<N> {
    pub const fn new() -> Self {
        Self { buf: [0; N], pos: 0 }
    }
}
impl<const N: usize> Write for Stage<N> {
    fn write_all(&mut self, b: &[u8]) -> RtpsMessageResult<()> {
        let end = self.pos + b.len();
        self.buf[self.pos..end].copy_from_slice(b);
        self.pos = end;
        Ok(())
    }
}
/// One staged submessage: the 4 header bytes written by the real header encoder (id, flags,
/// octetsToNextHeader LE) and the element bytes written by the real element encoder.
#[derive(Clone, Copy)]
pub struct Sub {
    pub hdr: [u8; 4],
    pub body: Stage<SUB_CAP>,
}
impl Sub {
    pub const fn new() -> Self {
        Self { hdr: [0; 4], body: Stage::new() }
    }
    pub fn id(&self) -> u8 {
        self.hdr[0]
    }
    pub fn flags(&self) -> u8 {
        self.hdr[1]
    }
    /// octetsToNextHeader as written into the submessage header.
    pub fn octets(&self) -> usize {
        u16le(&self.hdr, 0 + 2) as usize
    }
    /// Number of element bytes actually written.
    pub fn len(&self) -> usize {
        self.body.pos
    }
    /// Byte at offset `off` counted from the start of the submessage header (wire offsets of 9.4.5).
    pub fn at(&self, off: usize) -> u8 {
        self.body.buf[off - 4]
    }
    pub fn u16(&self, off: usize) -> u16 {
        u16le(&self.body.buf, off - 4)
    }
    pub fn u32(&self, off: usize) -> u32 {
        u32le(&self.body.buf, off - 4)
    }
    pub fn sn(&self, off: usize) -> i64 {
        snle(&self.body.buf, off - 4)
    }
}
#[derive(Clone, Copy)]
pub struct Msg {
    pub nsub: usize,
    pub subs: [Sub; MAX_SUBS],
    pub prefix: GuidPrefix,
}
impl Msg {
    pub const fn new() -> Self {
        Self { nsub: 0, subs: [Sub::new(); MAX_SUBS], prefix: [0; 12] }
    }
}
pub struct StageLog {
    pub n: usize,
    pub msgs: [Msg; LOG_CAP],
}
static STAGE_LOG: critical_section::Mutex<RefCell<StageLog>> =
    critical_section::Mutex::new(RefCell::new(StageLog { n: 0, msgs: [Msg::new(); LOG_CAP] }));

pub fn from_submessages_staged(submessages: &[&(dyn Submessage + Send)], guid_prefix: GuidPrefix) -> RtpsMessageWrite {
    let header = RtpsMessageHeader::new(
        crate::rtps::types::PROTOCOLVERSION_2_4,
        crate::rtps::types::VENDOR_ID_S2E,
        guid_prefix,
    );
    let mut msg = Msg::new();
    msg.prefix = guid_prefix;
    assert!(submessages.len() <= MAX_SUBS, "harness: too many submessages for the staging log");
    let mut j = 0;
    for sub in submessages {
        let mut body = Stage::<SUB_CAP>::new();
        sub.write_submessage_elements_into_bytes(&mut body);
        let mut hdr = Stage::<4>::new();
        sub.write_submessage_header_into_bytes(body.pos as u16, &mut hdr);
        msg.subs[j] = Sub { hdr: hdr.buf, body };
        j += 1;
    }
    msg.nsub = j;
    critical_section::with(|cs| {
        let mut l = STAGE_LOG.borrow(cs).borrow_mut();
        let i = l.n;
        assert!(i < LOG_CAP, "harness: staged datagram log full");
        l.msgs[i] = msg;
        l.n = i + 1;
    });
    RtpsMessageWrite::new(&header, &[])
}
/// Number of datagrams built so far.
pub fn staged_count() -> usize {
    critical_section::with(|cs| STAGE_LOG.borrow(cs).borrow().n)
}
/// Number of submessages and RTPS-header guid prefix of the i-th datagram built.
pub fn staged_meta(i: usize) -> (usize, GuidPrefix) {
    critical_section::with(|cs| {
        let l = STAGE_LOG.borrow(cs).borrow();
        (l.msgs[i].nsub, l.msgs[i].prefix)
    })
}
/// The j-th submessage of the i-th datagram built.
pub fn staged_sub(i: usize, j: usize) -> Sub {
    critical_section::with(|cs| STAGE_LOG.borrow(cs).borrow().msgs[i].subs[j])
}
/// Forget the datagrams built so far (pre-state construction).
pub fn staged_reset() {
    critical_section::with(|cs| STAGE_LOG.borrow(cs).borrow_mut().n = 0);
}
/// Counts `WriteMessage::write_message` calls (every staged datagram must also be sent).
pub struct Sent {
    pub n: core::cell::Cell<usize>,
}
impl Sent {
    pub fn new() -> Self {
        Self { n: core::cell::Cell::new(0) }
    }
}
impl WriteMessage for Sent {
    fn write_message(&self, _buf: &[u8], _locators: &[Locator]) {
        self.n.set(self.n.get() + 1);
    }
}

// ---------------------------------------------------------------------------------------------
// Wire-format oracle (RTPS 2.4 clause 9.4.5, little-endian as dust-dds always sets flag E):
// fixed-offset readers for the staged datagram bodies. The real decoders allocate Arc<[u8]> of
// symbolic size for payloads/parameters when fed bytes from a staged (symbolic) buffer, which made a
// 4-datagram harness exceed 700 s; reading the few fields an assertion needs at their wire offsets
// keeps the check on the bytes the real encoders produced. Layout of every submessage: 1 byte id,
// 1 byte flags, 2 bytes octetsToNextHeader, then the elements in the order of the clause cited.
pub fn u16le(b: &[u8], o: usize) -> u16 {
    (b[o] as u16) | ((b[o + 1] as u16) << 8)
}
pub fn u32le(b: &[u8], o: usize) -> u32 {
    (b[o] as u32) | ((b[o + 1] as u32) << 8) | ((b[o + 2] as u32) << 16) | ((b[o + 3] as u32) << 24)
}
/// SequenceNumber (9.4.2.5): int32 high, uint32 low.
pub fn snle(b: &[u8], o: usize) -> i64 {
    (((u32le(b, o) as i32) as i64) << 32) | (u32le(b, o + 4) as i64)
}
/// Submessage sizes that never vary: INFO_DST = 4 + 12 (9.4.5.8), INFO_TS with timestamp = 4 + 8,
/// with the invalidate flag = 4 + 0 (9.4.5.11), HEARTBEAT = 4 + 28 (9.4.5.7).
pub const LEN_INFO_DST: usize = 16;
pub const LEN_HEARTBEAT: usize = 32;
/// Offsets inside a DATA (9.4.5.3) / DATA_FRAG (9.4.5.4) submessage, from its header:
/// extraFlags 4, octetsToInlineQos 6, readerId 8, writerId 12, writerSN 16; DATA_FRAG continues with
/// fragmentStartingNum 24, fragmentsInSubmessage 28, fragmentSize 30, sampleSize 32, inlineQos 36.
pub const OFF_SN: usize = 16;
pub const OFF_DATA_QOS: usize = 24;
pub const OFF_FRAG_NUM: usize = 24;
pub const OFF_FRAGS_IN_SUB: usize = 28;
pub const OFF_FRAG_SIZE: usize = 30;
pub const OFF_SAMPLE_SIZE: usize = 32;
pub const OFF_FRAG_QOS: usize = 36;
/// An empty inline-QoS parameter list is the 4-byte sentinel (9.4.2.11).
pub const LEN_EMPTY_QOS: usize = 4;

/// Offset of the first submessage in an RTPS datagram (fixed 20-byte header, RTPS 9.4.4).
pub const RTPS_HEADER_LEN: usize = 20;

/// Step over one submessage exactly as the loop in `RtpsMessageRead::try_from` does (real
/// `SubmessageHeaderRead::try_read_from_bytes`, length test, consume), WITHOUT the dispatch over all
/// twelve submessage kinds: datagrams live in heap buffers whose bytes are opaque to symbolic
/// execution, so the full dispatcher explores every decoder at every position (measured: no answer
/// in 400 s for a 2-submessage datagram). The caller asserts the expected kind id and then calls that
/// kind's real decoder (`XxxSubmessage::try_from_bytes(&header, body)`), like the dispatcher does.
pub fn next_sub<'a>(v: &mut &'a [u8]) -> Option<(SubmessageHeaderRead, &'a [u8])> {
    if v.len() < 4 {
        return None;
    }
    let h = SubmessageHeaderRead::try_read_from_bytes(v).ok()?;
    let len = h.submessage_length() as usize;
    if v.len() < len {
        return None;
    }
    let body: &'a [u8] = *v;
    *v = &body[len..];
    Some((h, body))
}

/// Deliver one captured datagram to a reader exactly as `DcpsDomainParticipant::handle_data` does:
/// real parser, real `MessageReceiver` (source prefix / timestamp tracking), then the per-kind
/// reader entry points. ACKNACKs produced by the reader go to `out`.
pub fn deliver_to_reader(r: &mut RtpsStatefulReader, datagram: &[u8], out: &impl WriteMessage) {
    if let Ok(m) = RtpsMessageRead::try_from(datagram) {
        let mut mr = crate::rtps::message_receiver::MessageReceiver::new(&m);
        while let Some(sub) = mr.next() {
            match sub {
                RtpsSubmessageReadKind::Data(d) => {
                    r.on_data_submessage(d, mr.source_guid_prefix(), mr.source_timestamp())
                }
                RtpsSubmessageReadKind::DataFrag(d) => {
                    r.on_data_frag_submessage(d, mr.source_guid_prefix(), mr.source_timestamp())
                }
                RtpsSubmessageReadKind::Gap(g) => glue_gap(r, g, mr.source_guid_prefix()),
                RtpsSubmessageReadKind::Heartbeat(h) => {
                    glue_heartbeat(r, h, mr.source_guid_prefix(), out);
                }
                _ => (),
            }
        }
        core::mem::forget(m);
    }
}

/// A writer (W_GUID) with one matched reader proxy (R_GUID).
pub fn new_writer(frag: usize, rel: ReliabilityKind, dur: DurabilityKind) -> RtpsStatefulWriter {
    let mut w = RtpsStatefulWriter::new(W_GUID, frag);
    w.add_matched_reader(reader_proxy(rel, dur));
    w
}
