// Shared support for the RTPS protocol harnesses (C01, C02, C03 kernel, C04, C05).
//
// Environment stubs implemented through the repository's own traits:
//  * `Capture`   — a `WriteMessage` that stores every datagram the code under test emits,
//  * `FixedClock` — a `Clock` returning a fixed instant (heartbeat timing is C31's subject),
// plus constructors for the concrete identities (GUIDs) and small symbolic payloads.
// Nothing in here re-implements protocol logic; the glue replicas (`glue_*`) mirror, statement by
// statement, the private functions `handle_heartbeat_submessage` / `handle_gap_submessage` of
// dds/src/dcps/dcps_domain_participant/communication_methods.rs, which are not reachable from a
// harness without building a whole participant (a source guard in vlib/ptab/rtps_proto.py fails
// the check when those statements change in /repo).
use alloc::sync::Arc;
use alloc::vec::Vec;
use core::cell::RefCell;

use crate::infrastructure::time::Time;
use crate::rtps::stateful_reader::RtpsStatefulReader;
use crate::rtps::stateful_writer::RtpsStatefulWriter;
use crate::rtps::writer_proxy::RtpsWriterProxy;
use crate::rtps_messages::overall_structure::{RtpsMessageRead, RtpsSubmessageReadKind};
use crate::rtps_messages::submessages::gap::GapSubmessage;
use crate::rtps_messages::submessages::heartbeat::HeartbeatSubmessage;
use crate::runtime::Clock;
use crate::transport::interface::WriteMessage;
use crate::transport::types::{
    CacheChange, ChangeKind, DurabilityKind, EntityId, Guid, GuidPrefix, Locator, ReaderProxy,
    ReliabilityKind, WriterProxy, ENTITYID_UNKNOWN,
};

pub const W_PREFIX: GuidPrefix = [1; 12];
pub const R_PREFIX: GuidPrefix = [2; 12];
pub const W_ID: EntityId = EntityId::new([0, 0, 1], 0x02);
pub const R_ID: EntityId = EntityId::new([0, 0, 2], 0x07);
pub const W_GUID: Guid = Guid::new(W_PREFIX, W_ID);
pub const R_GUID: Guid = Guid::new(R_PREFIX, R_ID);

/// Captures every datagram handed to the transport.
pub struct Capture {
    pub msgs: RefCell<Vec<Vec<u8>>>,
}
impl Capture {
    pub fn new() -> Self {
        Self { msgs: RefCell::new(Vec::new()) }
    }
    pub fn len(&self) -> usize {
        self.msgs.borrow().len()
    }
    pub fn take(&self) -> Vec<Vec<u8>> {
        core::mem::take(&mut *self.msgs.borrow_mut())
    }
}
impl WriteMessage for Capture {
    fn write_message(&self, buf: &[u8], _locators: &[Locator]) {
        self.msgs.borrow_mut().push(buf.to_vec());
    }
}

/// Discards datagrams (used while a pre-state is produced by real operations).
pub struct Discard;
impl WriteMessage for Discard {
    fn write_message(&self, _buf: &[u8], _locators: &[Locator]) {}
}

pub struct FixedClock;
impl Clock for FixedClock {
    fn now(&self) -> Time {
        Time::new(1, 0)
    }
}

/// Symbolic payload of symbolic length `0..=N` (explicit length variable).
pub fn any_payload<const N: usize>() -> (Arc<[u8]>, [u8; N], usize) {
    let bytes: [u8; N] = kani::any();
    let len: usize = kani::any();
    kani::assume(len <= N);
    (Arc::from(&bytes[..len]), bytes, len)
}

pub fn change(sn: i64, data_value: Arc<[u8]>) -> CacheChange {
    CacheChange {
        kind: ChangeKind::Alive,
        writer_guid: W_GUID,
        sequence_number: sn,
        source_timestamp: None,
        instance_handle: None,
        data_value,
    }
}

pub fn reader_proxy(reliability_kind: ReliabilityKind, durability_kind: DurabilityKind) -> ReaderProxy {
    ReaderProxy {
        remote_reader_guid: R_GUID,
        remote_group_entity_id: ENTITYID_UNKNOWN,
        reliability_kind,
        durability_kind,
        unicast_locator_list: Vec::new(),
        multicast_locator_list: Vec::new(),
        expects_inline_qos: false,
    }
}

pub fn writer_proxy(reliability_kind: ReliabilityKind) -> WriterProxy {
    WriterProxy {
        remote_writer_guid: W_GUID,
        remote_group_entity_id: ENTITYID_UNKNOWN,
        reliability_kind,
        durability_kind: DurabilityKind::Volatile,
        unicast_locator_list: Vec::new(),
        multicast_locator_list: Vec::new(),
    }
}

/// A reader with one matched writer proxy (W_GUID) in its initial state.
pub fn new_reader(reliability: ReliabilityKind) -> RtpsStatefulReader {
    let mut r = RtpsStatefulReader::new(R_GUID, reliability);
    r.add_matched_writer(&writer_proxy(reliability));
    r
}

/// Put the matched writer proxy into the state (first_available, last_available, highest_received)
/// using only the proxy's own public operations (the fields are private).
/// `highest` must be >= 0 (0 = nothing received yet, the constructor's value).
pub fn set_proxy_state(r: &mut RtpsStatefulReader, first: i64, last: i64, highest: i64) {
    let wp = r.matched_writer_lookup(W_GUID).unwrap();
    wp.lost_changes_update(first);
    wp.missing_changes_update(last);
    wp.irrelevant_change_set(highest);
}

pub fn proxy(r: &mut RtpsStatefulReader) -> &mut RtpsWriterProxy {
    r.matched_writer_lookup(W_GUID).unwrap()
}

/// Replica of the per-reader body of `handle_heartbeat_submessage` (communication_methods.rs).
/// Returns true when the heartbeat was accepted (count fresh).
pub fn glue_heartbeat(r: &mut RtpsStatefulReader, hb: &HeartbeatSubmessage, src: GuidPrefix, out: &impl WriteMessage) -> bool {
    let writer_guid = Guid::new(src, hb.writer_id());
    let reader_guid = r.guid();
    let mut accepted = false;
    if let Some(writer_proxy) = r.matched_writer_lookup(writer_guid) {
        if writer_proxy.last_received_heartbeat_count() < hb.count() {
            writer_proxy.set_last_received_heartbeat_count(hb.count());
            writer_proxy.missing_changes_update(hb.last_sn());
            writer_proxy.lost_changes_update(hb.first_sn());

            let must_send_acknacks = !hb.final_flag()
                || (!hb.liveliness_flag() && writer_proxy.missing_changes().count() > 0);
            writer_proxy.set_must_send_acknacks(must_send_acknacks);

            writer_proxy.write_message(&reader_guid, out);
            accepted = true;
        }
    }
    accepted
}

/// Replica of the per-reader body of `handle_gap_submessage` (communication_methods.rs).
pub fn glue_gap(r: &mut RtpsStatefulReader, gap: &GapSubmessage, src: GuidPrefix) {
    let writer_guid = Guid::new(src, gap.writer_id());
    if let Some(writer_proxy) = r.matched_writer_lookup(writer_guid) {
        for seq_num in gap.gap_start()..gap.gap_list().base() {
            writer_proxy.irrelevant_change_set(seq_num)
        }
        for seq_num in gap.gap_list().set() {
            writer_proxy.irrelevant_change_set(seq_num)
        }
    }
}

/// Deliver one captured datagram to a reader exactly as `DcpsDomainParticipant::handle_data` does:
/// real parser, real `MessageReceiver` (source prefix / timestamp tracking), then the per-kind
/// reader entry points. ACKNACKs produced by the reader go to `out`.
pub fn deliver_to_reader(r: &mut RtpsStatefulReader, datagram: &[u8], out: &impl WriteMessage) {
    if let Ok(m) = RtpsMessageRead::try_from(datagram) {
        let mut mr = crate::rtps::message_receiver::MessageReceiver::new(&m);
        while let Some(sub) = mr.next() {
            match sub {
                RtpsSubmessageReadKind::Data(d) => {
                    r.on_data_submessage(d, mr.source_guid_prefix(), mr.source_timestamp())
                }
                RtpsSubmessageReadKind::DataFrag(d) => {
                    r.on_data_frag_submessage(d, mr.source_guid_prefix(), mr.source_timestamp())
                }
                RtpsSubmessageReadKind::Gap(g) => glue_gap(r, g, mr.source_guid_prefix()),
                RtpsSubmessageReadKind::Heartbeat(h) => {
                    glue_heartbeat(r, h, mr.source_guid_prefix(), out);
                }
                _ => (),
            }
        }
        core::mem::forget(m);
    }
}

/// A writer (W_GUID) with one matched reader proxy (R_GUID).
pub fn new_writer(frag: usize, rel: ReliabilityKind, dur: DurabilityKind) -> RtpsStatefulWriter {
    let mut w = RtpsStatefulWriter::new(W_GUID, frag);
    w.add_matched_reader(reader_proxy(rel, dur));
    w
}
