// temporary cost probes (deleted before delivery)
use super::support_part1 as s1;
use super::support_participant as sp;
use crate::infrastructure::time::{Duration, Time};

// @check props=C17 tier=thorough
// @desc probe: remove_discovered_participant once, concrete
// @bounds probe
// @enc DcpsDomainParticipant::remove_discovered_participant
#[kani::proof]
#[kani::unwind(3)]
#[kani::stub(critical_section::acquire, super::support_cs::cs_acquire)]
#[kani::stub(critical_section::release, super::support_cs::cs_release)]
fn c17_probe_remove_once() {
    let cap = sp::Capture::new();
    let mut p = sp::participant(&cap, 0);
    p.domain_participant.discovered_participant_list.push(s1::discovered(1, Duration::new(1, 0), Time::new(1, 0)));
    let which: bool = kani::any();
    let h = s1::remote_participant_handle(if which { 1 } else { 2 });
    p.remove_discovered_participant(&h);
    assert!(p.domain_participant.discovered_participant_list.len() == (!which) as usize, "probe");
    kani::cover!(which, "removed");
    core::mem::forget(p);
}

// @check props=C17 tier=thorough
// @desc probe: remove_stale_participants unwind 3
// @bounds probe
// @enc DcpsDomainParticipant::remove_stale_participants
#[kani::proof]
#[kani::unwind(3)]
#[kani::stub(critical_section::acquire, super::support_cs::cs_acquire)]
#[kani::stub(critical_section::release, super::support_cs::cs_release)]
fn c17_probe_stale_u3() {
    let cap = sp::Capture::new();
    let mut p = sp::participant(&cap, 0);
    let lease = s1::any_duration();
    let last = s1::any_time();
    let now = s1::any_time();
    let zero = Duration::new(0, 0);
    kani::assume(lease >= zero && last >= Time::new(0, 0) && now >= last);
    p.domain_participant.discovered_participant_list.push(s1::discovered(1, lease, last));
    let expired = s1::lease_expired(now, last, lease);
    p.remove_stale_participants(now);
    assert!(p.domain_participant.discovered_participant_list.len() == (!expired) as usize, "probe");
    kani::cover!(expired, "removed");
    core::mem::forget(p);
}
