// C28 (reduced scope, see DESIGN.md) — writer instance-management calls: the part of the contract that is
// decidable without traversing a DynamicData value:
//   * every instance-management / write operation on a NOT ENABLED writer fails with NotEnabled BEFORE
//     touching its sample argument and without changing anything;
//   * the same operations addressed to a publisher or writer handle that does not exist fail with
//     AlreadyDeleted, again before touching the argument.
// register_instance idempotence / handle equality, lookup_instance on registered instances, BadParameter for
// unknown instances and IllegalOperation for keyless types all sit behind KeyHolderData::from_dynamic_data
// (key extraction from a DynamicData value) and are outside this claim.
use super::support_part2 as s2;
use super::support_participant as sp;
use crate::dcps::channels::oneshot::{oneshot, OneshotReceiver};
use crate::dcps::dcps_domain_participant::data_writer_entity::DataWriterEntity;
use crate::dcps::dcps_domain_participant::participant_entity::DcpsDomainParticipant;
use crate::dcps::dcps_domain_participant::rtps_traits::RtpsWriter;
use crate::infrastructure::error::{DdsError, DdsResult};
use crate::infrastructure::instance::InstanceHandle;
use crate::infrastructure::qos::DataWriterQos;
use crate::infrastructure::time::{Duration, Time};
use crate::runtime::DdsRuntime;
use crate::transport::interface::WriteMessage;
use crate::transport::types::{CacheChange, Guid};
use crate::xtypes::dynamic_type::{DynamicData, DynamicDataFactory};
use crate::xtypes::type_support::Type;
use alloc::string::String;
use core::future::Future;
use core::pin::Pin;
use core::task::{Context, Poll, Waker};

/// An `RtpsWriter` that counts what reaches the transport.
struct MockWriter {
    n: usize,
}
impl RtpsWriter for MockWriter {
    fn guid(&self) -> Guid {
        s2::writer_guid()
    }
    fn add_change(&mut self, cache_change: CacheChange, _message_writer: &(impl WriteMessage + ?Sized), _runtime: &impl DdsRuntime) {
        self.n += 1;
        core::mem::forget(cache_change);
    }
}

fn empty_sample() -> DynamicData<'static> {
    DynamicDataFactory::create_data(<Duration as Type>::TYPE)
}

/// 1 = Err(NotEnabled), 2 = Err(AlreadyDeleted), 0 = anything else. The result is forgotten (DdsError owns Strings).
fn code<T>(r: DdsResult<T>) -> u8 {
    let c = match &r {
        Err(DdsError::NotEnabled) => 1,
        Err(DdsError::AlreadyDeleted) => 2,
        _ => 0,
    };
    core::mem::forget(r);
    c
}

/// Reply of the participant-level write: 1 / 2 as above, 0 = other reply, 9 = no reply at all.
fn poll_reply(rx: &mut OneshotReceiver<DdsResult<()>>) -> u8 {
    let mut cx = Context::from_waker(Waker::noop());
    match Pin::new(rx).poll(&mut cx) {
        Poll::Pending => 9,
        Poll::Ready(Ok(r)) => code(r),
        Poll::Ready(Err(e)) => {
            core::mem::forget(e);
            0
        }
    }
}

// @check props=C28 tier=quick
// @desc entity level: DataWriterEntity::register_w_timestamp / unregister_w_timestamp / dispose_w_timestamp on a writer that is not enabled return Err(NotEnabled) for any timestamp and any bookkeeping state (sequence counter symbolic, 0 or 1 registered instance), reach neither the key extraction nor the serializer, hand nothing to the RTPS writer and change nothing
// @bounds one local DataWriterEntity over a counting RtpsWriter; <= 1 registered instance; the sample argument is an empty DynamicData of a keyless type
// @assume stub: KeyHolderData::from_dynamic_data and data_writer_entity::serialize fail the proof when reached (checked obligation: the argument is not touched)
// @enc DataWriterEntity::register_w_timestamp
// @enc DataWriterEntity::unregister_w_timestamp
// @enc DataWriterEntity::dispose_w_timestamp
#[kani::proof]
#[kani::unwind(3)]
#[kani::stub(critical_section::acquire, super::support_cs::cs_acquire)]
#[kani::stub(critical_section::release, super::support_cs::cs_release)]
#[kani::stub(crate::dcps::xtypes_glue::key_and_instance_handle::KeyHolderData::from_dynamic_data, super::support_part2::key_holder_unreachable)]
#[kani::stub(crate::dcps::dcps_domain_participant::data_writer_entity::serialize, super::support_part2::serialize_unreachable)]
fn c28_entity_not_enabled() {
    let cap = sp::Capture::new();
    let mut w = DataWriterEntity::new(s2::WRITER_H, MockWriter { n: 0 }, String::from(s2::TOPIC_NAME), DataWriterQos::default());
    let sn0: i64 = kani::any();
    w.last_change_sequence_number = sn0;
    let with_instance: bool = kani::any();
    if with_instance {
        w.registered_instance_info.push(s2::writer_instance(s2::INSTANCE_H, Some(Time::new(1, 0))));
    }
    assert!(!w.enabled, "C28: a freshly constructed writer is not enabled");
    let dd = empty_sample();
    let ts = s2::any_time();
    let rt = sp::VRuntime { now: ts };
    let ty = <Duration as Type>::TYPE;
    let r1 = code(w.register_w_timestamp(&dd, &ty, ts));
    let r2 = code(w.unregister_w_timestamp(&dd, &ty, ts, &cap, &rt));
    let r3 = code(w.dispose_w_timestamp(&dd, &ty, ts, &cap, &rt));
    assert!(r1 == 1, "C28: register_instance on a not enabled writer fails with NotEnabled");
    assert!(r2 == 1, "C28: unregister_instance on a not enabled writer fails with NotEnabled");
    assert!(r3 == 1, "C28: dispose on a not enabled writer fails with NotEnabled");
    assert!(w.transport_writer.n == 0 && cap.count() == 0, "C28: nothing reaches the transport");
    assert!(w.last_change_sequence_number == sn0, "C28: no sequence number is consumed");
    assert!(w.registered_instance_info.len() == if with_instance { 1 } else { 0 }, "C28: no instance is registered or removed");
    if with_instance {
        assert!(w.registered_instance_info[0].last_write_time == Some(Time::new(1, 0)), "C28: the registered instance is untouched");
    }
    kani::cover!(with_instance && sn0 > 5, "writer with history, disabled");
    core::mem::forget(dd);
    core::mem::forget(w);
    core::mem::forget(cap);
}

struct Ops {
    register: u8,
    unregister: u8,
    dispose: u8,
    lookup: u8,
    write: u8,
}

/// The five participant-level operations with the given handles and an empty sample.
fn run_ops(p: &mut DcpsDomainParticipant, hp: &InstanceHandle, hw: &InstanceHandle, ts: Time) -> Ops {
    let dd = empty_sample();
    let rt = sp::VRuntime { now: ts };
    let register = code(p.register_instance(hp, hw, &dd, ts));
    let unregister = code(p.unregister_instance(hp, hw, &dd, ts, &rt));
    let dispose = code(p.dispose_w_timestamp(hp, hw, &dd, ts, &rt));
    let lookup = code(p.lookup_instance(hp, hw, &dd));
    let (tx, mut rx) = oneshot::<DdsResult<()>>();
    p.write_w_timestamp(hp, hw, &dd, ts, &rt, tx);
    let write = poll_reply(&mut rx);
    core::mem::forget(rx);
    core::mem::forget(dd);
    Ops { register, unregister, dispose, lookup, write }
}

fn participant_with_writer(cap: &sp::Capture, enabled: bool) -> DcpsDomainParticipant {
    let mut p = sp::participant(cap, 0);
    s2::install_topic(&mut p);
    let mut w = s2::new_writer(DataWriterQos::default(), None, sp::mask_from_bits(0));
    w.enabled = enabled;
    s2::install_publisher(&mut p, None, sp::mask_from_bits(0), alloc::vec![w]);
    p
}

// @check props=C28 tier=quick
// @desc participant level: register_instance, unregister_instance, dispose_w_timestamp, lookup_instance and write_w_timestamp addressed to an existing but NOT ENABLED writer: the four direct operations return Err(NotEnabled), the write answers Err(NotEnabled) through its reply oneshot; neither key extraction nor serializer is reached; no datagram is sent, no sequence number consumed, no instance registered, no write left pending
// @bounds one topic, one enabled publisher, one not enabled writer; timestamp on the small value grid
// @assume the topic/publisher/writer were installed directly in the state create_topic / create_user_defined_publisher / create_data_writer give them before enable (support_part2.rs)
// @assume stub: KeyHolderData::from_dynamic_data and data_writer_entity::serialize fail the proof when reached (checked obligation: the argument is not touched); Waker::wake/wake_by_ref/drop are the no-ops of Waker::noop(), the only waker used
// @enc DcpsDomainParticipant::register_instance
// @enc DcpsDomainParticipant::unregister_instance
// @enc DcpsDomainParticipant::dispose_w_timestamp
// @enc DcpsDomainParticipant::lookup_instance
// @enc DcpsDomainParticipant::write_w_timestamp
#[kani::proof]
#[kani::unwind(3)]
#[kani::stub(critical_section::acquire, super::support_cs::cs_acquire)]
#[kani::stub(critical_section::release, super::support_cs::cs_release)]
#[kani::stub(core::task::wake::Waker::wake, super::support_part2::waker_wake_stub)]
#[kani::stub(core::task::wake::Waker::wake_by_ref, super::support_part2::waker_wake_by_ref_stub)]
#[kani::stub(<core::task::wake::Waker as core::ops::Drop>::drop, super::support_part2::waker_drop_stub)]
#[kani::stub(crate::dcps::xtypes_glue::key_and_instance_handle::KeyHolderData::from_dynamic_data, super::support_part2::key_holder_unreachable)]
#[kani::stub(crate::dcps::dcps_domain_participant::data_writer_entity::serialize, super::support_part2::serialize_unreachable)]
fn c28_participant_not_enabled() {
    let cap = sp::Capture::new();
    let mut p = participant_with_writer(&cap, false);
    let ts = s2::any_time();
    let o = run_ops(&mut p, &s2::PUB_H, &s2::WRITER_H, ts);
    assert!(o.register == 1, "C28: register_instance on a not enabled writer fails with NotEnabled");
    assert!(o.unregister == 1, "C28: unregister_instance on a not enabled writer fails with NotEnabled");
    assert!(o.dispose == 1, "C28: dispose on a not enabled writer fails with NotEnabled");
    assert!(o.lookup == 1, "C28: lookup_instance on a not enabled writer fails with NotEnabled");
    assert!(o.write == 1, "C28: write on a not enabled writer is answered with NotEnabled");
    let w = &p.domain_participant.user_defined_publisher_list[0].data_writer_list[0];
    assert!(cap.count() == 0, "C28: no datagram is sent for a not enabled writer");
    assert!(w.last_change_sequence_number == 0 && w.registered_instance_info.is_empty(), "C28: nothing is stored in a not enabled writer");
    assert!(w.pending_write_sample.is_none() && w.transport_writer.changes().is_empty(), "C28: no write is left pending, the RTPS history stays empty");
    kani::cover!(ts > Time::new(1, 0), "some timestamp");
    core::mem::forget(p);
    core::mem::forget(cap);
}

// @check props=C28 tier=quick
// @desc participant level: the same five operations addressed to a (publisher handle, writer handle) pair of which at least one does not exist (both handles symbolic 16-byte values): every operation fails with AlreadyDeleted (the write through its reply oneshot) before touching the sample; the existing enabled writer is not modified and nothing is sent
// @bounds one topic, one publisher, one enabled writer; both handles any 16 bytes with (publisher handle, writer handle) != (existing publisher, existing writer)
// @assume as c28_participant_not_enabled (writer enabled)
// @enc DcpsDomainParticipant::register_instance
// @enc DcpsDomainParticipant::unregister_instance
// @enc DcpsDomainParticipant::dispose_w_timestamp
// @enc DcpsDomainParticipant::lookup_instance
// @enc DcpsDomainParticipant::write_w_timestamp
#[kani::proof]
#[kani::unwind(3)]
#[kani::stub(critical_section::acquire, super::support_cs::cs_acquire)]
#[kani::stub(critical_section::release, super::support_cs::cs_release)]
#[kani::stub(core::task::wake::Waker::wake, super::support_part2::waker_wake_stub)]
#[kani::stub(core::task::wake::Waker::wake_by_ref, super::support_part2::waker_wake_by_ref_stub)]
#[kani::stub(<core::task::wake::Waker as core::ops::Drop>::drop, super::support_part2::waker_drop_stub)]
#[kani::stub(crate::dcps::xtypes_glue::key_and_instance_handle::KeyHolderData::from_dynamic_data, super::support_part2::key_holder_unreachable)]
#[kani::stub(crate::dcps::dcps_domain_participant::data_writer_entity::serialize, super::support_part2::serialize_unreachable)]
fn c28_unknown_handles() {
    let cap = sp::Capture::new();
    let mut p = participant_with_writer(&cap, true);
    let hp = InstanceHandle::new(kani::any());
    let hw = InstanceHandle::new(kani::any());
    kani::assume(!(hp == s2::PUB_H && hw == s2::WRITER_H));
    let ts = Time::new(1, 0);
    let o = run_ops(&mut p, &hp, &hw, ts);
    assert!(o.register == 2, "C28: register_instance on an unknown publisher/writer fails with AlreadyDeleted");
    assert!(o.unregister == 2, "C28: unregister_instance on an unknown publisher/writer fails with AlreadyDeleted");
    assert!(o.dispose == 2, "C28: dispose on an unknown publisher/writer fails with AlreadyDeleted");
    assert!(o.lookup == 2, "C28: lookup_instance on an unknown publisher/writer fails with AlreadyDeleted");
    assert!(o.write == 2, "C28: write on an unknown publisher/writer is answered with AlreadyDeleted");
    let w = &p.domain_participant.user_defined_publisher_list[0].data_writer_list[0];
    assert!(cap.count() == 0 && w.last_change_sequence_number == 0 && w.registered_instance_info.is_empty(), "C28: the existing writer is not modified");
    kani::cover!(hp == s2::PUB_H, "existing publisher, unknown writer");
    kani::cover!(hw == s2::WRITER_H, "unknown publisher, handle of a writer that exists elsewhere");
    core::mem::forget(p);
    core::mem::forget(cap);
}
