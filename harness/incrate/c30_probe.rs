// temporary probes (cost isolation)
use super::support_part2 as s2;
use super::support_participant as sp;
use crate::infrastructure::qos::DataWriterQos;
use crate::infrastructure::qos_policy::DeadlineQosPolicy;
use crate::infrastructure::status::StatusKind;
use crate::infrastructure::time::{Duration, DurationKind};

fn probe(real_channel: bool, real_cond: bool) {
    let cap = sp::Capture::new();
    let mut p = sp::participant(&cap, 0);
    s2::install_topic(&mut p);
    let d = s2::any_duration();
    kani::assume(d > Duration::new(0, 0));
    let a = s2::any_time();
    let (tx, rx) = s2::listener_channel();
    let mut qos = DataWriterQos::default();
    qos.deadline = DeadlineQosPolicy { period: DurationKind::Finite(d) };
    let mut w = s2::new_writer(qos, Some(tx), s2::mask_one(StatusKind::OfferedDeadlineMissed, true));
    w.registered_instance_info = alloc::vec![s2::writer_instance(s2::INSTANCE_H, Some(a))];
    s2::install_publisher(&mut p, None, sp::mask_from_bits(0), alloc::vec![w]);
    let now1 = s2::any_time();
    kani::assume(a <= now1);
    s2::plan::<crate::dcps::dcps_domain_participant::user_defined_data_writer::UserDefinedDataWriter>(0, 1, true);
    s2::plan::<crate::dcps::dcps_domain_participant::data_writer_entity::RegisteredInstanceInfo>(1, 1, true);
    s2::plan::<crate::infrastructure::instance::InstanceHandle>(2, 1, false);
    let wa = s2::sender_addr(&p.domain_participant.user_defined_publisher_list[0].data_writer_list[0].listener_sender);
    let ca = s2::cond_addr(&p.domain_participant.user_defined_publisher_list[0].data_writer_list[0].status_condition);
    p.check_missed_writer_deadline(now1);
    let k = p.domain_participant.user_defined_publisher_list[0].data_writer_list[0].offered_deadline_missed_status.total_count;
    assert!(k == if now1 - a > d { 1 } else { 0 }, "probe count");
    if real_channel {
        let (n, _, _) = s2::drain2(&rx);
        assert!(n as i32 == k, "probe mails");
    } else {
        assert!(s2::n_sends() as i32 == k, "probe sends");
        if k == 1 {
            assert!(s2::send_at(0) == wa, "probe sender identity");
        }
    }
    if real_cond {
        assert!(p.domain_participant.user_defined_publisher_list[0].data_writer_list[0].status_condition.get_trigger_value() == (k == 1), "probe cond");
    } else {
        assert!(s2::n_states() as i32 == k, "probe states");
        if k == 1 {
            assert!(s2::state_at(0) == (ca, s2::kind_bit(StatusKind::OfferedDeadlineMissed)), "probe cond identity");
        }
    }
    kani::cover!(k == 1, "missed");
    core::mem::forget(rx);
    core::mem::forget(p);
    core::mem::forget(cap);
}

// @check props=C30 tier=thorough
// @desc probe V3
// @bounds probe
// @enc probe
#[kani::proof]
#[kani::solver(minisat)]
#[kani::unwind(2)]
#[kani::stub(critical_section::acquire, super::support_cs::cs_acquire)]
#[kani::stub(critical_section::release, super::support_cs::cs_release)]
#[kani::stub(crate::dcps::channels::mpsc::MpscSender::send, super::support_part2::mpsc_send_recorder)]
#[kani::stub(crate::dcps::status_condition::DcpsStatusCondition::add_communication_state, super::support_part2::add_state_recorder)]
#[kani::stub(<alloc::string::String as core::clone::Clone>::clone, super::support_part2::string_clone_stub)]
#[kani::stub(<core::slice::IterMut<'static, u8> as core::iter::Iterator>::next, super::support_part2::iter_mut_next_exact)]
#[kani::stub(<alloc::vec::IntoIter<u8> as core::iter::Iterator>::next, super::support_part2::into_iter_next_exact)]
fn c30_probe_v3_bothstub() {
    probe(false, false);
}
