// C22 — instance state, view state and generation counts follow the DDS instance life cycle.
//
// Pattern S: ONE real `DataReaderEntity::<()>::add_reader_change` from a directly constructed symbolic
// pre-state (the read/take half of the property -- an access makes the instance NOT_NEW and changes
// nothing else -- is asserted by the C20 harnesses `c20_read_n1` (quick, C20) and `c20_take_n1` (thorough, C20 and C22)).
// Two obligations chain two calls because the reader keeps no per-instance set of live writers, so
// "unregistration by ALL writers" cannot be phrased over a single constructed state.
//
// Reference model (DDS 1.4, 2.2.2.5.1.3 / 2.2.2.5.1.4 / 2.2.2.5.1.5 and figure 2.11), SHARED ownership:
//   first sample of an unknown instance            -> ALIVE, NEW, both generation counts 0
//   ALIVE              + dispose                    -> NOT_ALIVE_DISPOSED
//   ALIVE              + unregister (last writer)   -> NOT_ALIVE_NO_WRITERS
//   NOT_ALIVE_DISPOSED + data                       -> ALIVE, disposed_generation_count + 1, NEW
//   NOT_ALIVE_NO_WRITERS + data                     -> ALIVE, no_writers_generation_count + 1, NEW
//   anything else leaves instance state, counts and view state alone; the view state becomes NEW only
//   for a new or reborn instance and NOT_NEW only by read/take.
// Where the DDS text leaves freedom the oracle accepts every allowed outcome: a dispose of a
// NOT_ALIVE_NO_WRITERS instance may give either not-alive state; one writer's unregister of an ALIVE
// instance may leave it ALIVE (other live writers) or make it NOT_ALIVE_NO_WRITERS; an ALIVE_FILTERED
// change (writer-side content filter) may or may not count as data for the rebirth.
use super::support_reader2::*;
use crate::dcps::dcps_domain_participant::data_reader_entity::AddChangeResult;
use core::cmp::PartialEq; // (in scope for the trait path of the kani::stub attributes)

use crate::infrastructure::{
    instance::InstanceHandle,
    sample_info::{InstanceStateKind, SampleStateKind, ViewStateKind},
};
use crate::transport::types::ChangeKind;

#[derive(Clone, Copy, PartialEq, Eq)]
enum Part {
    Known, // restricted to the trigger of KF-C22-1
    Rest,  // trigger negated
}

/// Trigger of KF-C22-1: the implementation turns the view state NEW when a viewed instance is
/// disposed / unregistered, and does not turn it NEW when a viewed not-alive instance is reborn.
fn kf_c22_1_trigger(pre: &ISpec, kind: ChangeKind) -> bool {
    pre.view == ViewStateKind::NotNew
        && (kind == ChangeKind::NotAliveDisposed
            || kind == ChangeKind::NotAliveUnregistered
            || (kind == ChangeKind::Alive && pre.st != InstanceStateKind::Alive))
}

fn is_not_alive(k: ChangeKind) -> bool {
    !is_alive_kind(k)
}

/// The ~15-line reference model: is `post` an allowed successor of `pre` under a change of `kind`?
/// (view, instance state, disposed count, no-writers count)
fn model_allows(pre: &ISpec, kind: ChangeKind, post: (ViewStateKind, InstanceStateKind, i32, i32)) -> (bool, bool) {
    let (view, st, dgc, nwgc) = post;
    let reborn_d = pre.st == InstanceStateKind::NotAliveDisposed && st == InstanceStateKind::Alive;
    let reborn_n = pre.st == InstanceStateKind::NotAliveNoWriters && st == InstanceStateKind::Alive;
    let state_ok = match (pre.st, kind) {
        (InstanceStateKind::Alive, ChangeKind::Alive | ChangeKind::AliveFiltered) => st == InstanceStateKind::Alive,
        (InstanceStateKind::Alive, ChangeKind::NotAliveDisposed | ChangeKind::NotAliveDisposedUnregistered) => {
            st == InstanceStateKind::NotAliveDisposed
        }
        (InstanceStateKind::Alive, ChangeKind::NotAliveUnregistered) => {
            st == InstanceStateKind::NotAliveNoWriters || st == InstanceStateKind::Alive
        }
        (_, ChangeKind::Alive) => st == InstanceStateKind::Alive,
        (_, ChangeKind::AliveFiltered) => st == InstanceStateKind::Alive || st == pre.st,
        (InstanceStateKind::NotAliveDisposed, ChangeKind::NotAliveDisposed) => st == InstanceStateKind::NotAliveDisposed,
        (InstanceStateKind::NotAliveNoWriters, ChangeKind::NotAliveUnregistered) => st == InstanceStateKind::NotAliveNoWriters,
        // a not-alive instance never becomes ALIVE without data; which not-alive state it shows is left open
        (_, _) => st != InstanceStateKind::Alive,
    };
    let counts_ok = dgc == pre.dgc + (if reborn_d { 1 } else { 0 }) && nwgc == pre.nwgc + (if reborn_n { 1 } else { 0 });
    let view_ok = if reborn_d || reborn_n { view == ViewStateKind::New } else { view == pre.view };
    (state_ok && counts_ok, view_ok)
}

fn result_code(res: &crate::infrastructure::error::DdsResult<AddChangeResult>) -> u8 {
    match res {
        Ok(AddChangeResult::Added) => 0,
        Ok(AddChangeResult::NotAdded) => 1,
        Ok(AddChangeResult::Rejected(_, _)) => 2,
        Err(_) => 3,
    }
}

/// One symbolic stored sample of instance table entry `ix` (its counts respect I2).
fn any_stored(inst: &[ISpec; 2], ix: usize) -> SSpec {
    let s = SSpec {
        kind: any_kind(),
        writer: wguid(kani::any()),
        inst: ix,
        h: inst[ix].h,
        ss: any_sample_state(),
        dgc: any_gen(),
        nwgc: any_gen(),
        ts: if kani::any() { Some(any_time()) } else { None },
    };
    kani::assume(s.dgc <= inst[ix].dgc && s.nwgc <= inst[ix].nwgc);
    s
}

struct StepOut {
    known: bool,
    pre_st: InstanceStateKind,
    kind: ChangeKind,
    code: u8,
}

fn c22_step(part: Part) -> StepOut {
    // ---- pre-state: two known instances, one stored sample ---------------------------------------
    let h0 = any_handle();
    let h1 = any_handle();
    let hnew = any_handle();
    kani::assume(h0 != h1 && hnew != h0 && hnew != h1); // I1: one InstanceState per handle
    let inst = [any_ispec(h0), any_ispec(h1)];
    let sx: usize = kani::any();
    kani::assume(sx < 2);
    let stored = any_stored(&inst, sx);

    let mut r = reader(neutral_qos(false));
    r.instances.push(mk_inst(&inst[0]));
    r.instances.push(mk_inst(&inst[1]));
    r.sample_list.push(mk_sample(&stored));

    // ---- the change --------------------------------------------------------------------------------
    let target: u8 = kani::any(); // 0, 1: a known instance; 2: an instance the reader has never seen
    kani::assume(target < 3);
    let known = target < 2;
    let h = if target == 0 { h0 } else if target == 1 { h1 } else { hnew };
    let pre = if target == 1 { inst[1] } else { inst[0] }; // only meaningful if `known`
    let kind = any_kind();
    let writer = wguid(kani::any());
    let src = if kani::any() { Some(any_time()) } else { None };
    let rcv = any_time();

    let trig = known && kf_c22_1_trigger(&pre, kind);
    kani::assume(trig == (part == Part::Known));

    let res = r.add_reader_change(guid_of(writer), data(), kind, bytes_of(&h), src, rcv);
    let code = result_code(&res);

    // ---- post ----------------------------------------------------------------------------------------
    assert!(inst_count(&r, &h0) == 1 && inst_count(&r, &h1) == 1 && inst_count(&r, &hnew) <= 1, "C22: one InstanceState per handle after the step (I1)");
    if known {
        assert!(code == 0, "C22: with KEEP_ALL, unlimited resources, no filter and SHARED ownership every change of a known instance is stored");
        let post = inst_parts(&r, &h);
        assert!(post.is_some(), "C22: a known instance stays known");
        if let Some((v, st, d, n, _)) = post {
            let (state_ok, view_ok) = model_allows(&pre, kind, (v, st, d, n));
            assert!(state_ok, "C22: instance state and generation counts follow the DDS instance life cycle");
            assert!(view_ok, "C22: view_state is NEW exactly for a new or reborn instance");
            // the stored sample carries the generation counts of the instance at reception
            assert!(r.sample_list.len() == 2, "C22: the change is stored");
            if r.sample_list.len() == 2 {
                let x = &r.sample_list[1];
                assert!(
                    x.kind == kind
                        && x.instance_handle == h
                        && x.sample_state == SampleStateKind::NotRead
                        && x.disposed_generation_count == d
                        && x.no_writers_generation_count == n,
                    "C22: the stored sample is NOT_READ and carries the instance's generation counts at reception"
                );
            }
        }
        // the other instance is not touched
        let other = if target == 0 { inst[1] } else { inst[0] };
        assert!(inst_unchanged(&r, &other), "C22: a change of one instance leaves every other instance alone");
    } else if is_alive_kind(kind) {
        assert!(code == 0, "C22: the first sample of an instance is stored");
        let post = inst_parts(&r, &h);
        assert!(post.is_some(), "C22: the first sample creates the instance");
        if let Some((v, st, d, n, _)) = post {
            assert!(
                v == ViewStateKind::New && st == InstanceStateKind::Alive && d == 0 && n == 0,
                "C22: a new instance is ALIVE and NEW with generation counts 0"
            );
        }
        assert!(inst_unchanged(&r, &inst[0]) && inst_unchanged(&r, &inst[1]), "C22: a new instance leaves the known instances alone");
    } else {
        // dispose / unregister of an instance the reader never saw: DDS defines no instance for it
        assert!(inst_unchanged(&r, &inst[0]) && inst_unchanged(&r, &inst[1]), "C22: an unknown instance's dispose leaves the known instances alone");
    }
    assert!(
        r.sample_list.len() >= 1 && sample_is(&r.sample_list[0], &stored, stored.ss),
        "C22: the stored samples keep their own state and generation counts"
    );

    assert!(r.instances.len() <= 3, "C22: at most one instance is created");
    core::mem::forget(res);
    core::mem::forget(r);
    StepOut { known, pre_st: pre.st, kind, code }
}

// @check props=C22 tier=quick known=KF-C22-1
// @desc one add_reader_change on a known instance, restricted to the trigger of KF-C22-1: the view state must be NEW exactly for a new or reborn instance (expected to fail: it becomes NEW on dispose/unregister of a viewed instance and stays NOT_NEW when a viewed not-alive instance is reborn)
// @bounds 2 known instances with fully symbolic view/instance state and generation counts 0..10^6, 1 stored sample, the change: any of the 5 kinds, any writer, optional source timestamp, for instance 0, 1 or a never-seen one; unwind 4 (<= 3 instances / samples + 1)
// @assume trigger KF-C22-1: the instance is known and NOT_NEW and the change is NOT_ALIVE_DISPOSED or NOT_ALIVE_UNREGISTERED, or ALIVE while the instance is not alive
// @assume I1: one InstanceState per handle; I2: stored sample's generation counts <= the instance's; reader QoS: SHARED ownership, KEEP_ALL, unlimited resource limits, BY_RECEPTION_TIMESTAMP, minimum_separation 0
// @enc dcps::dcps_domain_participant::data_reader_entity::DataReaderEntity::add_reader_change
// @enc dcps::dcps_domain_participant::data_reader_entity::InstanceState::update_state
// @assume stub: InstanceHandle == is replaced by the equivalent branch-free 128-bit comparison (support_reader2::ih_eq; equivalence with the derived PartialEq proved over all inputs by c20_stub_equivalence)
#[kani::proof]
#[kani::unwind(4)]
#[kani::stub(<InstanceHandle as PartialEq<InstanceHandle>>::eq, super::support_reader2::ih_eq)]
fn c22_step__known() {
    let o = c22_step(Part::Known);
    kani::cover!(o.kind == ChangeKind::Alive, "viewed not-alive instance reborn");
    kani::cover!(o.kind != ChangeKind::Alive, "viewed instance disposed / unregistered");
}

// @check props=C22 tier=quick
// @desc one add_reader_change from a symbolic instance table vs the DDS life-cycle reference model: instance state, both generation counts and the view state of the changed instance are an allowed successor, a first sample creates an ALIVE/NEW instance with counts 0, every other instance and every stored sample is untouched, the stored sample carries the instance's counts at reception (this includes the double update_state application of add_reader_change) -- outside the trigger of KF-C22-1
// @bounds 2 known instances with fully symbolic view/instance state and generation counts 0..10^6, 1 stored sample, the change: any of the 5 kinds, any writer, optional source timestamp, for instance 0, 1 or a never-seen one; unwind 4 (<= 3 instances / samples + 1)
// @assume negation of trigger KF-C22-1
// @assume I1: one InstanceState per handle; I2: stored sample's generation counts <= the instance's; reader QoS: SHARED ownership, KEEP_ALL, unlimited resource limits, BY_RECEPTION_TIMESTAMP, minimum_separation 0
// @enc dcps::dcps_domain_participant::data_reader_entity::DataReaderEntity::add_reader_change
// @enc dcps::dcps_domain_participant::data_reader_entity::InstanceState::update_state
// @assume stub: InstanceHandle == is replaced by the equivalent branch-free 128-bit comparison (support_reader2::ih_eq; equivalence with the derived PartialEq proved over all inputs by c20_stub_equivalence)
#[kani::proof]
#[kani::unwind(4)]
#[kani::stub(<InstanceHandle as PartialEq<InstanceHandle>>::eq, super::support_reader2::ih_eq)]
fn c22_step__rest() {
    let o = c22_step(Part::Rest);
    kani::cover!(o.known && o.pre_st == InstanceStateKind::NotAliveDisposed && o.kind == ChangeKind::Alive, "rebirth after dispose");
    kani::cover!(o.known && o.pre_st == InstanceStateKind::NotAliveNoWriters && o.kind == ChangeKind::Alive, "rebirth after no-writers");
    kani::cover!(o.known && o.pre_st == InstanceStateKind::Alive && is_not_alive(o.kind), "an ALIVE instance is disposed / unregistered");
    kani::cover!(!o.known && o.code == 0, "a new instance was created");
    kani::cover!(!o.known && o.code == 3, "dispose of an unknown instance");
}

/// Two chained changes on one instance: first `k1` from writer `w1`, then NOT_ALIVE_UNREGISTERED from `w2`.
fn two_writers(same_writer: bool) {
    let h = any_handle();
    let a = wguid(kani::any());
    let b = wguid(kani::any());
    kani::assume(eq16(&a, &b) == same_writer);
    let mut r = reader(neutral_qos(false));
    let t1 = any_time();
    let t2 = any_time();
    if !same_writer {
        // history so far: writer A wrote the instance (its sample is stored), nobody disposed or unregistered it
        let i0 = ISpec { st: InstanceStateKind::Alive, ..any_ispec(h) };
        let s0 = SSpec { kind: ChangeKind::Alive, writer: a, inst: 0, h, ss: any_sample_state(), dgc: i0.dgc, nwgc: i0.nwgc, ts: None };
        r.instances.push(mk_inst(&i0));
        r.sample_list.push(mk_sample(&s0));
    }
    // step 1: the other writer (B) -- or, for a single writer, A itself -- writes the instance
    let r1 = r.add_reader_change(guid_of(b), data(), ChangeKind::Alive, bytes_of(&h), None, t1);
    assert!(result_code(&r1) == 0, "C22: the write is stored");
    // step 2: writer A unregisters the instance
    let r2 = r.add_reader_change(guid_of(a), data(), ChangeKind::NotAliveUnregistered, bytes_of(&h), None, t2);
    assert!(result_code(&r2) == 0, "C22: the unregister is stored");
    let post = inst_parts(&r, &h);
    assert!(post.is_some(), "C22: the instance is known");
    if let Some((_, st, _, _, _)) = post {
        if same_writer {
            assert!(st == InstanceStateKind::NotAliveNoWriters, "C22: unregistration by the only writer leads to NOT_ALIVE_NO_WRITERS");
        } else {
            assert!(st == InstanceStateKind::Alive, "C22: NOT_ALIVE_NO_WRITERS only after ALL writers of the instance unregistered");
        }
        kani::cover!(st == InstanceStateKind::NotAliveNoWriters, "NOT_ALIVE_NO_WRITERS reached");
    }
    core::mem::forget(r1);
    core::mem::forget(r2);
    core::mem::forget(r);
}

// @check props=C22 tier=thorough known=KF-C22-2
// @desc two writers: A has written the instance (stored sample, instance ALIVE), B writes it, then A unregisters it: the instance must stay ALIVE because B is still registered (expected to fail: the reader keeps no set of live writers per instance and turns NOT_ALIVE_NO_WRITERS on the first unregister)
// @bounds 1 instance (symbolic view state and generation counts), 1 stored sample, two chained add_reader_change calls with symbolic writers and reception times; unwind 4
// @assume trigger KF-C22-2: the unregistering writer differs from another writer that has written the instance and not unregistered it
// @assume reader QoS: SHARED ownership, KEEP_ALL, unlimited resource limits, BY_RECEPTION_TIMESTAMP, minimum_separation 0
// @enc dcps::dcps_domain_participant::data_reader_entity::DataReaderEntity::add_reader_change
// @enc dcps::dcps_domain_participant::data_reader_entity::InstanceState::update_state
// @assume stub: InstanceHandle == is replaced by the equivalent branch-free 128-bit comparison (support_reader2::ih_eq; equivalence with the derived PartialEq proved over all inputs by c20_stub_equivalence)
#[kani::proof]
#[kani::unwind(4)]
#[kani::stub(<InstanceHandle as PartialEq<InstanceHandle>>::eq, super::support_reader2::ih_eq)]
fn c22_unregister_two_writers__known() {
    two_writers(false);
}

// @check props=C22 tier=thorough
// @desc single writer: its first write creates the instance, its unregister leads to NOT_ALIVE_NO_WRITERS (the negation of trigger KF-C22-2: every writer of the instance has unregistered)
// @bounds empty reader, two chained add_reader_change calls (ALIVE then NOT_ALIVE_UNREGISTERED) from one symbolic writer with symbolic reception times; unwind 4
// @assume negation of trigger KF-C22-2: the unregistering writer is the only writer of the instance
// @assume reader QoS: SHARED ownership, KEEP_ALL, unlimited resource limits, BY_RECEPTION_TIMESTAMP, minimum_separation 0
// @enc dcps::dcps_domain_participant::data_reader_entity::DataReaderEntity::add_reader_change
// @enc dcps::dcps_domain_participant::data_reader_entity::InstanceState::update_state
// @assume stub: InstanceHandle == is replaced by the equivalent branch-free 128-bit comparison (support_reader2::ih_eq; equivalence with the derived PartialEq proved over all inputs by c20_stub_equivalence)
#[kani::proof]
#[kani::unwind(4)]
#[kani::stub(<InstanceHandle as PartialEq<InstanceHandle>>::eq, super::support_reader2::ih_eq)]
fn c22_unregister_single_writer__rest() {
    two_writers(true);
}
