// C16 — matched-status counts track the actual matched set.
// Kernel harnesses on stand-alone UserDefinedDataWriter / UserDefinedDataReader entities (the real add/remove/read
// functions, symbolic counters) and participant-level harnesses (real DcpsDomainParticipant, directly installed
// writer / reader with 0-2 matched remote endpoints) for the removal paths: SEDP disposal
// (remove_discovered_reader / remove_discovered_writer through the guarded hooks) and participant removal
// (remove_discovered_participant: lease expiry, SPDP disposal, ignore_participant).
use super::support_part1 as s1;
use super::support_participant as sp;
use super::support_rtps::{Discard, FixedClock};
use crate::dcps::dcps_domain_participant::participant_entity::DcpsDomainParticipant;
use crate::dcps::dcps_domain_participant::user_defined_data_reader::UserDefinedDataReader;
use crate::dcps::dcps_domain_participant::user_defined_data_writer::UserDefinedDataWriter;
use crate::infrastructure::instance::InstanceHandle;
use crate::infrastructure::qos::{DataReaderQos, DataWriterQos};
use crate::infrastructure::status::{PublicationMatchedStatus, SubscriptionMatchedStatus};
use crate::rtps::stateful_reader::RtpsStatefulReader;
use crate::rtps::stateful_writer::RtpsStatefulWriter;
use crate::rtps_messages::submessage_elements::SequenceNumberSet;
use crate::rtps_messages::submessages::ack_nack::AckNackSubmessage;
use crate::transport::types::{Guid, ReliabilityKind};
use alloc::string::String;

// Kernel harnesses: matched lists of exactly MAXN entries before the step (a second entry makes every access go through
// a symbolic pointer into the list buffer: measured out of memory at 10 GB).
const MAXN: usize = 1;

fn standalone_writer() -> UserDefinedDataWriter {
    let g = s1::writer_guid(0, 0);
    UserDefinedDataWriter::new(
        InstanceHandle::new(g.into()),
        RtpsStatefulWriter::new(g, 1344),
        String::from("A"),
        None,
        sp::mask_from_bits(0),
        DataWriterQos::const_default(),
    )
}
fn standalone_reader() -> UserDefinedDataReader {
    let g = s1::reader_guid(0, 0);
    UserDefinedDataReader::new(
        InstanceHandle::new(g.into()),
        DataReaderQos::const_default(),
        String::from("A"),
        None,
        sp::mask_from_bits(0),
        RtpsStatefulReader::new(g, ReliabilityKind::Reliable),
    )
}
fn handle_of(g: Guid) -> InstanceHandle {
    InstanceHandle::new(g.into())
}
fn sub_listed(w: &UserDefinedDataWriter, g: Guid) -> bool {
    let key: [u8; 16] = g.into();
    w.matched_subscription_list.iter().any(|x| x.key.value == key)
}
fn pub_listed(r: &UserDefinedDataReader, g: Guid) -> bool {
    let key: [u8; 16] = g.into();
    r.reader.matched_publication_list.iter().any(|x| x.key.value == key)
}
/// Does the RTPS writer still hold a (reliable) reader proxy for remote reader `g`? A fresh ACKNACK from that
/// reader is accepted by on_acknack_submessage_received iff such a proxy exists (history empty: nothing is sent).
fn has_reader_proxy(w: &mut UserDefinedDataWriter, g: Guid) -> bool {
    let wid = w.writer.transport_writer.guid().entity_id();
    let m = AckNackSubmessage::new(true, g.entity_id(), wid, SequenceNumberSet::new(1, []), i32::MAX);
    w.writer.transport_writer.on_acknack_submessage_received(&m, g.prefix(), &Discard, &FixedClock).is_some()
}

// History abstraction for the status counters: any values a create/match/unmatch/read history can leave, i.e.
// current_count == matched list length, 0 <= current_count <= total_count, total_count_change <= total_count,
// |current_count_change| bounded (no i32 overflow within one more step).
fn any_pub_status(len: usize) -> PublicationMatchedStatus {
    let mut s = PublicationMatchedStatus::const_default();
    let total: i32 = kani::any();
    let tchange: i32 = kani::any();
    let cchange: i32 = kani::any();
    kani::assume(total >= len as i32 && total < 1_000_000);
    kani::assume(tchange >= 0 && tchange <= total);
    kani::assume(cchange > -1_000_000 && cchange < 1_000_000);
    s.total_count = total;
    s.total_count_change = tchange;
    s.current_count = len as i32;
    s.current_count_change = cchange;
    s
}
fn any_sub_status(len: usize) -> SubscriptionMatchedStatus {
    let mut s = SubscriptionMatchedStatus::const_default();
    let total: i32 = kani::any();
    let tchange: i32 = kani::any();
    let cchange: i32 = kani::any();
    kani::assume(total >= len as i32 && total < 1_000_000);
    kani::assume(tchange >= 0 && tchange <= total);
    kani::assume(cchange > -1_000_000 && cchange < 1_000_000);
    s.total_count = total;
    s.total_count_change = tchange;
    s.current_count = len as i32;
    s.current_count_change = cchange;
    s
}

// @check props=C16 tier=quick
// @desc writer-side kernel: UserDefinedDataWriter::remove_matched_subscription(handle) on a writer with 1 matched subscription and ANY consistent status counters, handle = one of the matched readers or an unmatched one: if matched, the entry (and only it) leaves the list, current_count == new list length, current_count_change drops by exactly 1, total_count / total_count_change are unchanged; if not matched nothing changes. Then PublicationMatchedStatus::get (what get_publication_matched_status returns) reports exactly those values and resets both change fields to 0 while current_count / total_count stay
// @bounds 1 matched subscription; counters: total_count in [len, 10^6), total_count_change in [0,total], current_count_change in (-10^6, 10^6)
// @assume invariant (re-established, asserted after the step): current_count == matched_subscription_list.len()
// @enc UserDefinedDataWriter::remove_matched_subscription
// @enc PublicationMatchedStatus::get
#[kani::proof]
#[kani::unwind(2)]
#[kani::stub(critical_section::acquire, super::support_cs::cs_acquire)]
#[kani::stub(critical_section::release, super::support_cs::cs_release)]
fn c16_kernel_writer_unmatch_and_read() {
    s1::link_drop_glue();
    let mut w = standalone_writer();
    // list lengths are constants of the harness (a push / remove at a symbolic length is a 600-byte write through a
    // symbolic pointer: measured out of memory at 10 GB)
    let n: usize = MAXN;
    let (g1, g2, g3) = (s1::remote_reader_guid(1, 1), s1::remote_reader_guid(2, 1), s1::remote_reader_guid(3, 1));
    w.matched_subscription_list.push(s1::subscription(g1, true));
    w.publication_matched_status = any_pub_status(n);
    let before = w.publication_matched_status.clone();
    let which: u8 = kani::any();
    kani::assume(which <= 2);
    let g = if which == 0 { g1 } else if which == 1 { g2 } else { g3 };
    let was = sub_listed(&w, g);

    w.remove_matched_subscription(&handle_of(g));

    let s = &w.publication_matched_status;
    assert!(!sub_listed(&w, g), "C16: removed subscription is no longer matched");
    assert!(w.matched_subscription_list.len() == n - was as usize, "C16: exactly the named subscription is removed");
    assert!(s.current_count == w.matched_subscription_list.len() as i32, "C16: current_count equals the number of matched subscriptions");
    assert!(s.current_count_change == before.current_count_change - was as i32, "C16: current_count_change drops by one per removed subscription");
    assert!(s.total_count == before.total_count && s.total_count_change == before.total_count_change, "C16: total_count is unchanged by removals");
    if which != 0 && n >= 1 {
        assert!(sub_listed(&w, g1), "C16: other subscriptions stay matched");
    }

    let read = w.publication_matched_status.get();
    assert!(
        read.current_count == w.matched_subscription_list.len() as i32
            && read.total_count == before.total_count
            && read.current_count_change == before.current_count_change - was as i32
            && read.total_count_change == before.total_count_change,
        "C16: the status read reports the counters and the changes since the previous read"
    );
    let s = &w.publication_matched_status;
    assert!(s.current_count_change == 0 && s.total_count_change == 0, "C16: reading the status resets the change fields");
    assert!(s.current_count == read.current_count && s.total_count == read.total_count, "C16: reading the status keeps the counts");
    kani::cover!(was && which == 0, "matched subscription removed");
    kani::cover!(!was, "unmatched handle");
    core::mem::forget(w);
}

fn writer_unmatch_proxy(matched: bool) {
    // The whole effect of remove_discovered_reader on a writer is `data_writer.remove_matched_subscription(&handle)`
    // (+ the status condition), see discovery_methods.rs:1313-1345 (source guard in vlib/ptab/part1.py).
    let mut w = standalone_writer();
    let g1 = s1::remote_reader_guid(1, 1);
    s1::match_reader(&mut w, g1, true);
    let last: i64 = kani::any();
    kani::assume(last >= 1);
    w.writer.last_change_sequence_number = last;
    let g = if matched { g1 } else { s1::remote_reader_guid(3, 1) };

    w.remove_matched_subscription(&handle_of(g));

    assert!(sub_listed(&w, g1) == !matched, "C16: the reader leaves the matched set iff it is the disposed one");
    assert!(w.publication_matched_status.current_count == w.matched_subscription_list.len() as i32, "C16: current_count equals the number of matched readers");
    let acked = w.writer.transport_writer.is_change_acknowledged(last);
    let proxy = has_reader_proxy(&mut w, g1);
    assert!(proxy == !matched, "C16: the RTPS reader proxy (destination of DATA / HEARTBEAT / GAP) exists iff the reader is still matched");
    assert!(acked == matched, "C16: an unmatched reliable reader no longer holds back acknowledgement (wait_for_acknowledgments)");
    kani::cover!(true, "end reached");
    core::mem::forget(w);
}

// @check props=C16,C03 tier=quick known=KF-C16-3
// @desc KNOWN FINDING: when a matched reliable reader is deleted (SEDP disposal -> remove_discovered_reader -> UserDefinedDataWriter::remove_matched_subscription) the DDS-level match and the counters are updated but the RTPS reader proxy stays in the writer (delete_matched_reader is never called on this path): DATA / HEARTBEAT / GAP keep being addressed to the deleted reader, and is_change_acknowledged(last) stays false for ever, so wait_for_acknowledgments (parked before or issued after the deletion) never completes
// @bounds one writer (stand-alone entity), one matched reliable reader that acknowledged nothing; last written sequence number in [1, i64::MAX]
// @assume trigger: the disposed reader is matched with the writer
// @assume the match is installed with the statements of the success branch of process_discovered_readers (list push, four counter updates, add_matched_reader)
// @enc UserDefinedDataWriter::remove_matched_subscription
// @enc RtpsStatefulWriter::is_change_acknowledged
// @enc RtpsStatefulWriter::on_acknack_submessage_received
#[kani::proof]
#[kani::unwind(2)]
#[kani::stub(critical_section::acquire, super::support_cs::cs_acquire)]
#[kani::stub(critical_section::release, super::support_cs::cs_release)]
fn c16_kernel_writer_unmatch_proxy__known() {
    s1::link_drop_glue();
    writer_unmatch_proxy(true);
}

// @check props=C16,C03 tier=quick
// @desc sibling of KF-C16-3 with the trigger negated: disposal of a reader that is NOT matched with the writer: matched set, counters and the RTPS proxy of the matched reader are unchanged and the matched reliable reader still holds back acknowledgement
// @bounds as c16_kernel_writer_unmatch_proxy__known
// @assume negated trigger: the disposed reader is not matched with the writer
// @enc UserDefinedDataWriter::remove_matched_subscription
// @enc RtpsStatefulWriter::is_change_acknowledged
#[kani::proof]
#[kani::unwind(2)]
#[kani::stub(critical_section::acquire, super::support_cs::cs_acquire)]
#[kani::stub(critical_section::release, super::support_cs::cs_release)]
fn c16_kernel_writer_unmatch_proxy__rest() {
    s1::link_drop_glue();
    writer_unmatch_proxy(false);
}

fn reader_add(replace: bool) {
    let mut r = standalone_reader();
    let (g1, g2) = (s1::remote_writer_guid(1, 1), s1::remote_writer_guid(2, 1));
    let n: usize = 1;
    r.reader.matched_publication_list.push(s1::publication(g1));
    r.subscription_matched_status = any_sub_status(n);
    let before = r.subscription_matched_status.clone();
    // the announcement processed by process_discovered_writers: a new writer, or (replace) a writer that is already
    // matched whose announcement changed (e.g. ownership strength): `matched_publication_list.contains(&data)` is then
    // false and the caller goes on to add_matched_publication
    let g = if replace { g1 } else { g2 };
    let mut data = s1::publication(g);
    data.ownership_strength.value = 5;
    let already = pub_listed(&r, g);

    r.add_matched_publication(data);

    let s = &r.subscription_matched_status;
    let len = r.reader.matched_publication_list.len();
    assert!(pub_listed(&r, g), "C16: the publication is matched");
    assert!(len == n + !already as usize, "C16: a matched writer appears once in the matched set");
    assert!(s.current_count == len as i32, "C16: current_count equals the number of matched publications");
    assert!(s.total_count == before.total_count + !already as i32, "C16: total_count counts each distinct match once");
    assert!(s.total_count_change == before.total_count_change + !already as i32, "C16: total_count_change counts each distinct match once");
    assert!(
        s.current_count_change == before.current_count_change + (len as i32 - n as i32),
        "C16: current_count_change equals the change of current_count"
    );
    kani::cover!(already == replace, "reached");
    core::mem::forget(r);
}

// @check props=C16 tier=quick known=KF-C16-4
// @desc KNOWN FINDING: when an already matched remote writer is announced again with changed data (QoS update: process_discovered_writers skips only announcements IDENTICAL to the stored one), add_matched_publication replaces the entry but still increments total_count, total_count_change and current_count_change: total_count counts the same match twice and the change fields no longer equal the difference since the last read (the writer-side twin is inline in process_discovered_readers, discovery_methods.rs:1052-1077)
// @bounds one matched publication, one re-announcement with a different ownership strength; counters any consistent values
// @assume trigger: the key of the added publication is already in matched_publication_list
// @enc UserDefinedDataReader::add_matched_publication
#[kani::proof]
#[kani::unwind(2)]
#[kani::stub(critical_section::acquire, super::support_cs::cs_acquire)]
#[kani::stub(critical_section::release, super::support_cs::cs_release)]
fn c16_kernel_reader_match__known() {
    s1::link_drop_glue();
    reader_add(true);
}

// @check props=C16 tier=quick
// @desc sibling of KF-C16-4 with the trigger negated: add_matched_publication of a writer that is NOT yet matched (1 other matched writer, any consistent counters): the entry is appended, current_count == list length, current_count_change / total_count / total_count_change each grow by exactly 1
// @bounds 1 matched publication before the step; counters any consistent values
// @assume negated trigger: the key of the added publication is not in matched_publication_list
// @enc UserDefinedDataReader::add_matched_publication
#[kani::proof]
#[kani::unwind(2)]
#[kani::stub(critical_section::acquire, super::support_cs::cs_acquire)]
#[kani::stub(critical_section::release, super::support_cs::cs_release)]
fn c16_kernel_reader_match__rest() {
    s1::link_drop_glue();
    reader_add(false);
}

// @check props=C16 tier=quick
// @desc reader-side kernel: remove_matched_publication(handle) on a reader with 1 matched publication and any consistent counters (handle matched or not): mirror of the writer-side kernel, plus get_subscription_matched_status reports the counters and resets the change fields
// @bounds 1 matched publication; counters as in the writer kernel
// @assume invariant (re-established, asserted after the step): current_count == matched_publication_list.len()
// @enc UserDefinedDataReader::remove_matched_publication
// @enc UserDefinedDataReader::get_subscription_matched_status
#[kani::proof]
#[kani::unwind(2)]
#[kani::stub(critical_section::acquire, super::support_cs::cs_acquire)]
#[kani::stub(critical_section::release, super::support_cs::cs_release)]
fn c16_kernel_reader_unmatch_and_read() {
    s1::link_drop_glue();
    let mut r = standalone_reader();
    let n: usize = MAXN;
    let (g1, g2, g3) = (s1::remote_writer_guid(1, 1), s1::remote_writer_guid(2, 1), s1::remote_writer_guid(3, 1));
    r.reader.matched_publication_list.push(s1::publication(g1));
    r.subscription_matched_status = any_sub_status(n);
    let before = r.subscription_matched_status.clone();
    let which: u8 = kani::any();
    kani::assume(which <= 2);
    let g = if which == 0 { g1 } else if which == 1 { g2 } else { g3 };
    let was = pub_listed(&r, g);

    r.remove_matched_publication(&handle_of(g));

    let len = r.reader.matched_publication_list.len();
    let s = &r.subscription_matched_status;
    assert!(!pub_listed(&r, g), "C16: removed publication is no longer matched");
    assert!(len == n - was as usize, "C16: exactly the named publication is removed");
    assert!(s.current_count == len as i32, "C16: current_count equals the number of matched publications");
    assert!(s.current_count_change == before.current_count_change - was as i32, "C16: current_count_change drops by one per removed publication");
    assert!(s.total_count == before.total_count && s.total_count_change == before.total_count_change, "C16: total_count is unchanged by removals");

    let read = r.get_subscription_matched_status();
    assert!(
        read.current_count == len as i32
            && read.total_count == before.total_count
            && read.current_count_change == before.current_count_change - was as i32
            && read.total_count_change == before.total_count_change,
        "C16: the status read reports the counters and the changes since the previous read"
    );
    let s = &r.subscription_matched_status;
    assert!(s.current_count_change == 0 && s.total_count_change == 0, "C16: reading the status resets the change fields");
    assert!(s.current_count == read.current_count && s.total_count == read.total_count, "C16: reading the status keeps the counts");
    kani::cover!(was && which == 0, "matched publication removed");
    kani::cover!(!was, "unmatched handle");
    core::mem::forget(r);
}

// ---- participant level -----------------------------------------------------------------------------------------

/// Participant + publisher (real create) + directly installed writer matched (statements of the success branch of
/// process_discovered_readers, see support_part1::match_reader) with reader (1,1) of remote participant 1 and, if
/// `two`, reader (q,1) of remote participant q in {1,2}... here reader (q,2).
// Participant-level harnesses: one matched endpoint (TWO = false); see MAXN.
const TWO: bool = false;

fn writer_fixture(p: &mut DcpsDomainParticipant, two: bool, q: u8) -> (InstanceHandle, InstanceHandle) {
    let ph = s1::new_publisher(p);
    let wh = s1::install_writer(p, 0, 0, "A", DataWriterQos::const_default());
    let w = &mut p.domain_participant.user_defined_publisher_list[0].data_writer_list[0];
    s1::match_reader(w, s1::remote_reader_guid(1, 1), true);
    if two {
        s1::match_reader(w, s1::remote_reader_guid(q, 2), true);
    }
    (ph, wh)
}

fn writer_reader_disposed(disposed_matched: bool, check_proxy: bool) {
    let cap = sp::Capture::new();
    let mut p = sp::participant(&cap, 0);
    let two: bool = TWO;
    let (ph, wh) = writer_fixture(&mut p, two, 2);
    let read_before: bool = kani::any();
    if read_before {
        // the application read the status after the matches (change fields reset)
        let r = p.get_publication_matched_status(&ph, &wh);
        assert!(r.is_ok(), "harness: status read must succeed");
        core::mem::forget(r);
    }
    let n = 1 + two as usize;
    let before = p.domain_participant.user_defined_publisher_list[0].data_writer_list[0].publication_matched_status.clone();
    assert!(before.current_count == n as i32 && before.total_count == n as i32, "harness: counters after the matches");
    let g_keep = s1::remote_reader_guid(2, 2);
    let g = if disposed_matched { s1::remote_reader_guid(1, 1) } else { s1::remote_reader_guid(3, 1) };

    p.verif_remove_discovered_reader(handle_of(g), ph, wh);

    let w = &mut p.domain_participant.user_defined_publisher_list[0].data_writer_list[0];
    let len = w.matched_subscription_list.len();
    let s = w.publication_matched_status.clone();
    assert!(!sub_listed(w, g), "C16: disposed reader is no longer in the matched set");
    assert!(len == n - disposed_matched as usize, "C16: only the disposed reader leaves the matched set");
    assert!(s.current_count == len as i32, "C16: current_count equals the number of matched readers after a reader disposal");
    assert!(s.current_count_change == before.current_count_change - disposed_matched as i32, "C16: current_count_change reflects the disposal");
    assert!(s.total_count == before.total_count && s.total_count_change == before.total_count_change, "C16: total_count unchanged by a disposal");
    if two {
        assert!(sub_listed(w, g_keep), "C16: the other reader stays matched");
        assert!(has_reader_proxy(w, g_keep), "C16: the other reader keeps its RTPS proxy");
    }
    if check_proxy {
        assert!(!has_reader_proxy(w, g), "C16: no RTPS reader proxy (data / heartbeat destination) is left for the disposed reader");
    }
    kani::cover!(read_before, "status read before the disposal");
    kani::cover!(!read_before, "unread changes at the disposal");
    core::mem::forget(p);
}

// @check props=C16 tier=quick
// @desc SEDP disposal of a matched remote reader (remove_discovered_reader through the guarded hook) on a participant whose writer has 1 matched reader, status read or not read since the matches: the disposed reader leaves the matched set, current_count == number of matched readers, current_count_change drops by 1 relative to the last read, total_count unchanged, the other reader stays matched with its RTPS proxy; disposal of a reader that is not matched changes nothing (DDS-level counters only: the RTPS proxy of the disposed reader is the subject of the __known / __rest pair)
// @bounds one publisher (real create), one writer installed directly, 1 matched reliable reader; disposed reader matched or not (symbolic)
// @assume writer installed directly (state of create_data_writer + enable); matches installed with the statements of the success branch of process_discovered_readers
// @assume stub: tracing LevelFilter::current() returns OFF (process without a tracing subscriber)
// @enc DcpsDomainParticipant::remove_discovered_reader
// @enc UserDefinedDataWriter::remove_matched_subscription
// @enc DcpsDomainParticipant::get_publication_matched_status
#[kani::proof]
#[kani::unwind(2)]
#[kani::stub(critical_section::acquire, super::support_cs::cs_acquire)]
#[kani::stub(critical_section::release, super::support_cs::cs_release)]
#[kani::stub(tracing::level_filters::LevelFilter::current, super::support_qos::tracing_off)]
fn c16_writer_reader_disposed_counts() {
    s1::link_drop_glue();
    writer_reader_disposed(kani::any(), false);
}

// @check props=C16 tier=quick known=KF-C16-3
// @desc KNOWN FINDING: after the SEDP disposal of a matched remote reader (remove_discovered_reader) the writer's RTPS reader proxy for it is still present (transport_writer.delete_matched_reader is never called on this path): heartbeats, DATA and GAPs keep being addressed to the deleted reader and a reliable writer waits for its acknowledgements for ever (see KF-C03-2)
// @bounds as c16_writer_reader_disposed_counts
// @assume trigger: the disposed reader is matched with the writer
// @assume stub: tracing LevelFilter::current() returns OFF
// @enc DcpsDomainParticipant::remove_discovered_reader
// @enc RtpsStatefulWriter::on_acknack_submessage_received
#[kani::proof]
#[kani::unwind(2)]
#[kani::stub(critical_section::acquire, super::support_cs::cs_acquire)]
#[kani::stub(critical_section::release, super::support_cs::cs_release)]
#[kani::stub(tracing::level_filters::LevelFilter::current, super::support_qos::tracing_off)]
fn c16_writer_reader_disposed_proxy__known() {
    s1::link_drop_glue();
    writer_reader_disposed(true, true);
}

// @check props=C16 tier=quick
// @desc sibling of KF-C16-3 with the trigger negated: disposal of a remote reader that is NOT matched with the writer: matched set, counters and RTPS proxies unchanged, and there is no RTPS proxy for the disposed reader
// @bounds as c16_writer_reader_disposed_counts
// @assume negated trigger: the disposed reader is not matched with the writer
// @assume stub: tracing LevelFilter::current() returns OFF
// @enc DcpsDomainParticipant::remove_discovered_reader
#[kani::proof]
#[kani::unwind(2)]
#[kani::stub(critical_section::acquire, super::support_cs::cs_acquire)]
#[kani::stub(critical_section::release, super::support_cs::cs_release)]
#[kani::stub(tracing::level_filters::LevelFilter::current, super::support_qos::tracing_off)]
fn c16_writer_reader_disposed_proxy__rest() {
    s1::link_drop_glue();
    writer_reader_disposed(false, true);
}

fn writer_participant_removed(removed: u8) {
    // readers: (1,1) of participant 1 and, if `two`, (q,2) of participant q in {1,2}; participant `removed` in {1,2,3} leaves
    let cap = sp::Capture::new();
    let mut p = sp::participant(&cap, 0);
    let two: bool = TWO;
    let q: u8 = if kani::any() { 1 } else { 2 };
    let (_ph, _wh) = writer_fixture(&mut p, two, q);
    let n = 1 + two as usize;
    let before = p.domain_participant.user_defined_publisher_list[0].data_writer_list[0].publication_matched_status.clone();
    let gone1 = removed == 1;
    let gone2 = two && removed == q;
    let n_gone = gone1 as usize + gone2 as usize;

    p.remove_discovered_participant(&s1::remote_participant_handle(removed));

    let w = &mut p.domain_participant.user_defined_publisher_list[0].data_writer_list[0];
    let len = w.matched_subscription_list.len();
    let s = w.publication_matched_status.clone();
    assert!(sub_listed(w, s1::remote_reader_guid(1, 1)) == !gone1, "C16: readers of the departed participant leave the matched set, others stay");
    if two {
        assert!(sub_listed(w, s1::remote_reader_guid(q, 2)) == !gone2, "C16: readers of the departed participant leave the matched set, others stay (second reader)");
    }
    assert!(len == n - n_gone, "C16: matched set shrinks by the readers of the departed participant");
    assert!(has_reader_proxy(w, s1::remote_reader_guid(1, 1)) == !gone1, "C16: RTPS proxies of departed readers are deleted, others kept");
    assert!(s.total_count == before.total_count && s.total_count_change == before.total_count_change, "C16: total_count unchanged by a departure");
    assert!(s.current_count == len as i32, "C16: current_count equals the number of matched readers after a participant departure");
    assert!(s.current_count_change == before.current_count_change - n_gone as i32, "C16: current_count_change reflects the departure");
    if removed == 1 {
        kani::cover!(n_gone == n, "every matched reader belongs to the departed participant");
    } else {
        kani::cover!(n_gone == 0, "nobody departs");
    }
    core::mem::forget(p);
}

// @check props=C16 tier=quick known=KF-C16-1
// @desc KNOWN FINDING: remove_discovered_participant (lease expiry, SPDP disposal, ignore_participant) removes the departed participant's readers from matched_subscription_list and deletes their RTPS proxies but does NOT update publication_matched_status: current_count keeps the old value (!= number of matched readers) and current_count_change does not record the drop (the status condition / listener are not notified either)
// @bounds one writer, 1 matched reader of remote participant 1; participant 1 departs
// @assume trigger: at least one matched reader belongs to the departed participant
// @enc DcpsDomainParticipant::remove_discovered_participant
#[kani::proof]
#[kani::unwind(2)]
#[kani::stub(critical_section::acquire, super::support_cs::cs_acquire)]
#[kani::stub(critical_section::release, super::support_cs::cs_release)]
fn c16_writer_participant_removed__known() {
    s1::link_drop_glue();
    writer_participant_removed(1);
}

// @check props=C16 tier=quick
// @desc sibling of KF-C16-1 with the trigger negated: a participant none of whose readers is matched with the writer departs (remove_discovered_participant): matched set, counters and RTPS proxies are unchanged
// @bounds one writer, 1 matched reader of remote participant 1; participant 3 departs
// @assume negated trigger: no matched reader belongs to the departed participant
// @enc DcpsDomainParticipant::remove_discovered_participant
#[kani::proof]
#[kani::unwind(2)]
#[kani::stub(critical_section::acquire, super::support_cs::cs_acquire)]
#[kani::stub(critical_section::release, super::support_cs::cs_release)]
fn c16_writer_participant_removed__rest() {
    s1::link_drop_glue();
    writer_participant_removed(3);
}

fn reader_fixture(p: &mut DcpsDomainParticipant, two: bool, q: u8) -> (InstanceHandle, InstanceHandle) {
    let sh = s1::new_subscriber(p);
    let rh = s1::install_reader(p, 0, 0, "A", DataReaderQos::const_default());
    let r = &mut p.domain_participant.user_defined_subscriber_list[0].data_reader_list[0];
    s1::match_writer(r, s1::remote_writer_guid(1, 1), true);
    if two {
        s1::match_writer(r, s1::remote_writer_guid(q, 2), true);
    }
    (sh, rh)
}

// @check props=C16 tier=quick
// @desc SEDP disposal of a remote writer (remove_discovered_writer through the guarded hook) on a participant whose reader has 1 matched writer, disposed writer matched or not: it leaves the matched set, current_count == number of matched writers, current_count_change drops by 1 iff it was matched, total_count unchanged, the other writer stays; then get_subscription_matched_status (participant API) reports these values and a second read reports zero changes
// @bounds one subscriber (real create), one reader installed directly, 1 matched writer; disposed writer matched or not
// @assume reader installed directly (state of create_data_reader + enable); matches installed with the real add_matched_publication + add_matched_writer (success branch of process_discovered_writers)
// @assume stub: tracing LevelFilter::current() returns OFF
// @enc DcpsDomainParticipant::remove_discovered_writer
// @enc UserDefinedDataReader::remove_matched_publication
// @enc DcpsDomainParticipant::get_subscription_matched_status
#[kani::proof]
#[kani::unwind(2)]
#[kani::stub(critical_section::acquire, super::support_cs::cs_acquire)]
#[kani::stub(critical_section::release, super::support_cs::cs_release)]
#[kani::stub(tracing::level_filters::LevelFilter::current, super::support_qos::tracing_off)]
fn c16_reader_writer_disposed_counts() {
    s1::link_drop_glue();
    let cap = sp::Capture::new();
    let mut p = sp::participant(&cap, 0);
    let two: bool = TWO;
    let (sh, rh) = reader_fixture(&mut p, two, 2);
    let n = 1 + two as usize;
    let before = p.domain_participant.user_defined_subscriber_list[0].data_reader_list[0].subscription_matched_status.clone();
    assert!(before.current_count == n as i32 && before.total_count == n as i32 && before.current_count_change == n as i32, "harness: counters after the matches");
    let matched: bool = kani::any();
    let g = if matched { s1::remote_writer_guid(1, 1) } else { s1::remote_writer_guid(3, 1) };

    p.verif_remove_discovered_writer(handle_of(g), sh, rh);

    let r = &p.domain_participant.user_defined_subscriber_list[0].data_reader_list[0];
    let len = r.reader.matched_publication_list.len();
    assert!(!pub_listed(r, g), "C16: disposed writer is no longer in the matched set");
    assert!(len == n - matched as usize, "C16: only the disposed writer leaves the matched set");
    if two {
        assert!(pub_listed(r, s1::remote_writer_guid(2, 2)), "C16: the other writer stays matched");
    }
    let st = p.get_subscription_matched_status(&sh, &rh);
    match &st {
        Ok(s) => {
            assert!(s.current_count == len as i32, "C16: current_count equals the number of matched writers after a writer disposal");
            assert!(s.current_count_change == n as i32 - matched as i32, "C16: current_count_change is the net change since the last read");
            assert!(s.total_count == n as i32 && s.total_count_change == n as i32, "C16: total_count unchanged by a disposal");
        }
        Err(_) => assert!(false, "C16: status read on a live reader succeeds"),
    }
    let st2 = p.get_subscription_matched_status(&sh, &rh);
    match &st2 {
        Ok(s) => assert!(s.current_count_change == 0 && s.total_count_change == 0 && s.current_count == len as i32, "C16: a second read reports no change"),
        Err(_) => assert!(false, "C16: status read on a live reader succeeds"),
    }
    kani::cover!(matched, "matched writer disposed");
    kani::cover!(!matched, "unmatched writer disposed");
    core::mem::forget(st);
    core::mem::forget(st2);
    core::mem::forget(p);
}

fn reader_participant_removed(removed: u8) {
    let cap = sp::Capture::new();
    let mut p = sp::participant(&cap, 0);
    let two: bool = TWO;
    let q: u8 = if kani::any() { 1 } else { 2 };
    let (_sh, _rh) = reader_fixture(&mut p, two, q);
    let n = 1 + two as usize;
    let before = p.domain_participant.user_defined_subscriber_list[0].data_reader_list[0].subscription_matched_status.clone();
    let gone1 = removed == 1;
    let gone2 = two && removed == q;
    let n_gone = gone1 as usize + gone2 as usize;

    p.remove_discovered_participant(&s1::remote_participant_handle(removed));

    let r = &mut p.domain_participant.user_defined_subscriber_list[0].data_reader_list[0];
    let proxy1 = r.reader.transport_reader.matched_writer_lookup(s1::remote_writer_guid(1, 1)).is_some();
    assert!(proxy1 == !gone1, "C16: RTPS writer proxies of the departed participant are deleted, others kept");
    let s = r.subscription_matched_status.clone();
    assert!(s.total_count == before.total_count && s.total_count_change == before.total_count_change, "C16: total_count unchanged by a departure");
    assert!(pub_listed(r, s1::remote_writer_guid(1, 1)) == !gone1, "C16: writers of the departed participant leave the matched set, others stay");
    let len = r.reader.matched_publication_list.len();
    assert!(len == n - n_gone, "C16: matched set shrinks by the writers of the departed participant");
    assert!(s.current_count == (n - n_gone) as i32, "C16: current_count equals the number of matched writers after a participant departure");
    assert!(s.current_count_change == before.current_count_change - n_gone as i32, "C16: current_count_change reflects the departure (reader)");
    if removed == 1 {
        kani::cover!(n_gone == n, "every matched writer belongs to the departed participant");
    } else {
        kani::cover!(n_gone == 0, "nobody departs");
    }
    core::mem::forget(p);
}

// @check props=C16 tier=quick known=KF-C16-2
// @desc KNOWN FINDING: remove_discovered_participant deletes the RTPS writer proxies and the samples of the departed participant's writers on a local reader but leaves them in matched_publication_list and leaves subscription_matched_status untouched: get_matched_publications still lists the departed writers, current_count does not drop, no change is recorded
// @bounds one reader, 1 matched writer of remote participant 1; participant 1 departs
// @assume trigger: at least one matched writer belongs to the departed participant
// @enc DcpsDomainParticipant::remove_discovered_participant
#[kani::proof]
#[kani::unwind(2)]
#[kani::stub(critical_section::acquire, super::support_cs::cs_acquire)]
#[kani::stub(critical_section::release, super::support_cs::cs_release)]
fn c16_reader_participant_removed__known() {
    s1::link_drop_glue();
    reader_participant_removed(1);
}

// @check props=C16 tier=quick
// @desc sibling of KF-C16-2 with the trigger negated: a participant none of whose writers is matched with the reader departs: matched set, counters and RTPS writer proxies unchanged
// @bounds one reader, 1 matched writer of remote participant 1; participant 3 departs
// @assume negated trigger: no matched writer belongs to the departed participant
// @enc DcpsDomainParticipant::remove_discovered_participant
#[kani::proof]
#[kani::unwind(2)]
#[kani::stub(critical_section::acquire, super::support_cs::cs_acquire)]
#[kani::stub(critical_section::release, super::support_cs::cs_release)]
fn c16_reader_participant_removed__rest() {
    s1::link_drop_glue();
    reader_participant_removed(3);
}
