// C16 — matched-status counts track the actual matched set.
// Kernel harnesses on stand-alone entities (the real add_matched_publication / status read functions, symbolic
// counters) and participant-level harnesses (real DcpsDomainParticipant, directly installed writer / reader with one
// matched remote endpoint) for the participant-removal path (remove_discovered_participant: lease expiry, SPDP
// disposal, ignore_participant). The SEDP-disposal path is not decided (see the note below).
use super::support_part1 as s1;
use super::support_participant as sp;
use crate::dcps::dcps_domain_participant::participant_entity::DcpsDomainParticipant;
use crate::dcps::dcps_domain_participant::user_defined_data_reader::UserDefinedDataReader;
use crate::dcps::dcps_domain_participant::user_defined_data_writer::UserDefinedDataWriter;
use crate::infrastructure::instance::InstanceHandle;
use crate::infrastructure::qos::{DataReaderQos, DataWriterQos};
use crate::infrastructure::status::{PublicationMatchedStatus, SubscriptionMatchedStatus};
use crate::rtps::stateful_reader::RtpsStatefulReader;
use crate::rtps::stateful_writer::RtpsStatefulWriter;
use crate::transport::types::{Guid, ReliabilityKind};
use alloc::string::String;

// Kernel harnesses: matched lists of exactly MAXN entries before the step (a second entry makes every access go through
// a symbolic pointer into the list buffer: measured out of memory at 10 GB).
const MAXN: usize = 1;

fn standalone_writer() -> UserDefinedDataWriter {
    let g = s1::writer_guid(0, 0);
    UserDefinedDataWriter::new(
        InstanceHandle::new(g.into()),
        RtpsStatefulWriter::new(g, 1344),
        String::from("A"),
        None,
        sp::mask_from_bits(0),
        DataWriterQos::const_default(),
    )
}
fn standalone_reader() -> UserDefinedDataReader {
    let g = s1::reader_guid(0, 0);
    UserDefinedDataReader::new(
        InstanceHandle::new(g.into()),
        DataReaderQos::const_default(),
        String::from("A"),
        None,
        sp::mask_from_bits(0),
        RtpsStatefulReader::new(g, ReliabilityKind::Reliable),
    )
}
fn handle_of(g: Guid) -> InstanceHandle {
    InstanceHandle::new(g.into())
}
fn sub_listed(w: &UserDefinedDataWriter, g: Guid) -> bool {
    let key: [u8; 16] = g.into();
    w.matched_subscription_list.iter().any(|x| x.key.value == key)
}
fn pub_listed(r: &UserDefinedDataReader, g: Guid) -> bool {
    let key: [u8; 16] = g.into();
    r.reader.matched_publication_list.iter().any(|x| x.key.value == key)
}

// History abstraction for the status counters: any values a create/match/unmatch/read history can leave, i.e.
// current_count == matched list length, 0 <= current_count <= total_count, total_count_change <= total_count,
// |current_count_change| bounded (no i32 overflow within one more step).
fn any_pub_status(len: usize) -> PublicationMatchedStatus {
    let mut s = PublicationMatchedStatus::const_default();
    let total: i32 = kani::any();
    let tchange: i32 = kani::any();
    let cchange: i32 = kani::any();
    kani::assume(total >= len as i32 && total < 1_000_000);
    kani::assume(tchange >= 0 && tchange <= total);
    kani::assume(cchange > -1_000_000 && cchange < 1_000_000);
    s.total_count = total;
    s.total_count_change = tchange;
    s.current_count = len as i32;
    s.current_count_change = cchange;
    s
}
fn any_sub_status(len: usize) -> SubscriptionMatchedStatus {
    let mut s = SubscriptionMatchedStatus::const_default();
    let total: i32 = kani::any();
    let tchange: i32 = kani::any();
    let cchange: i32 = kani::any();
    kani::assume(total >= len as i32 && total < 1_000_000);
    kani::assume(tchange >= 0 && tchange <= total);
    kani::assume(cchange > -1_000_000 && cchange < 1_000_000);
    s.total_count = total;
    s.total_count_change = tchange;
    s.current_count = len as i32;
    s.current_count_change = cchange;
    s
}

// NOT DECIDED (measured): the SEDP-disposal path (remove_discovered_reader / remove_discovered_writer ->
// UserDefinedDataWriter::remove_matched_subscription / UserDefinedDataReader::remove_matched_publication) removes the
// entry with `Vec::remove(i)` where `i` comes out of `Iterator::position`; symbolic execution sees `i` as symbolic
// (payload of an Option), so the tail move inside Vec::remove is a `memmove` of SYMBOLIC size over 456-byte
// SubscriptionBuiltinTopicData elements: 78 k SSA steps, but the SAT encoding of the symbolic-size byte_extract /
// byte_update runs out of 10 GB in propositional reduction (stand-alone writer with ONE matched entry; the same for the
// reader). Stubbing Vec::remove needs the unstable Allocator trait in its signature; `ptr::copy` cannot be stubbed
// from a `forbid(unsafe_code)` crate. See the report / ptab `outside`.

// @check props=C16 tier=quick
// @desc status read: PublicationMatchedStatus::get (what get_publication_matched_status returns) and UserDefinedDataReader::get_subscription_matched_status on ANY counter values: the returned snapshot equals the stored counters (current_count, total_count and both change fields = difference since the previous read), afterwards both change fields are 0 and current_count / total_count are untouched; a second read reports zero changes
// @bounds none on the four i32 counters of each status (full domain); loop-free code
// @enc PublicationMatchedStatus::get
// @enc UserDefinedDataReader::get_subscription_matched_status
#[kani::proof]
#[kani::unwind(2)]
#[kani::stub(critical_section::acquire, super::support_cs::cs_acquire)]
#[kani::stub(critical_section::release, super::support_cs::cs_release)]
fn c16_kernel_status_read_resets_changes() {
    s1::link_drop_glue();
    let mut ps = PublicationMatchedStatus::const_default();
    let (a, b, c, d): (i32, i32, i32, i32) = (kani::any(), kani::any(), kani::any(), kani::any());
    ps.total_count = a;
    ps.total_count_change = b;
    ps.current_count = c;
    ps.current_count_change = d;
    let r1 = ps.get();
    assert!(r1.total_count == a && r1.total_count_change == b && r1.current_count == c && r1.current_count_change == d, "C16: publication matched status read reports the stored counters");
    assert!(ps.total_count == a && ps.current_count == c, "C16: reading keeps total_count and current_count");
    assert!(ps.total_count_change == 0 && ps.current_count_change == 0, "C16: reading resets the change fields");
    let r2 = ps.get();
    assert!(r2.total_count_change == 0 && r2.current_count_change == 0 && r2.total_count == a && r2.current_count == c, "C16: a second read reports no change");

    let mut r = standalone_reader();
    r.subscription_matched_status.total_count = a;
    r.subscription_matched_status.total_count_change = b;
    r.subscription_matched_status.current_count = c;
    r.subscription_matched_status.current_count_change = d;
    let s1_ = r.get_subscription_matched_status();
    assert!(s1_.total_count == a && s1_.total_count_change == b && s1_.current_count == c && s1_.current_count_change == d, "C16: subscription matched status read reports the stored counters");
    let st = &r.subscription_matched_status;
    assert!(st.total_count == a && st.current_count == c && st.total_count_change == 0 && st.current_count_change == 0, "C16: reading resets only the change fields (reader)");
    kani::cover!(b != 0 && d < 0, "unread changes with a net loss of matches");
    core::mem::forget(r);
}

// @check props=C16 tier=quick
// @desc UserDefinedDataReader::add_matched_publication on a reader with one matched writer and ANY consistent status counters, for BOTH kinds of announcement process_discovered_writers hands to it: a writer that is NOT yet matched (new key): the entry is appended, current_count == list length, current_count_change / total_count / total_count_change each grow by exactly 1; a writer that IS already matched and re-announced with changed data (QoS update; the caller skips only announcements identical to the stored one): the stored entry is replaced by the new data, the list length and all three counters are unchanged and current_count == list length - total_count counts each distinct match once and the change fields stay the difference since the last read (the defect this check found here, double counting on re-announcement, was repaired in /repo)
// @bounds one matched publication before the step; the announced key equal to it or new (symbolic); counters: total_count in [1, 10^6), total_count_change in [0,total], current_count_change in (-10^6, 10^6)
// @assume invariant (asserted again after the step): current_count == matched_publication_list.len()
// @enc UserDefinedDataReader::add_matched_publication
#[kani::proof]
#[kani::unwind(3)]
#[kani::stub(critical_section::acquire, super::support_cs::cs_acquire)]
#[kani::stub(critical_section::release, super::support_cs::cs_release)]
fn c16_kernel_reader_match() {
    s1::link_drop_glue();
    let mut r = standalone_reader();
    let (g1, g2) = (s1::remote_writer_guid(1, 1), s1::remote_writer_guid(2, 1));
    let n: usize = 1;
    r.reader.matched_publication_list.push(s1::publication(g1));
    r.subscription_matched_status = any_sub_status(n);
    let before = r.subscription_matched_status.clone();
    // the announcement processed by process_discovered_writers: a new writer, or (replace) a writer that is already
    // matched whose announcement changed (ownership strength): `matched_publication_list.contains(&data)` is then
    // false and the caller goes on to add_matched_publication
    let replace: bool = kani::any();
    let g = if replace { g1 } else { g2 };
    let mut data = s1::publication(g);
    data.ownership_strength.value = 5;
    let already = pub_listed(&r, g);
    assert!(already == replace, "harness: the announced key is matched iff it is the re-announcement");

    r.add_matched_publication(data);

    let s = &r.subscription_matched_status;
    let len = r.reader.matched_publication_list.len();
    let new = !already as i32;
    assert!(pub_listed(&r, g), "C16: the publication is matched");
    assert!(pub_listed(&r, g1), "C16: the previously matched publication stays matched");
    assert!(len == n + !already as usize, "C16: a matched writer appears once in the matched set");
    assert!(s.current_count == len as i32, "C16: current_count equals the number of matched publications");
    assert!(s.total_count == before.total_count + new, "C16: total_count counts each distinct match once");
    assert!(s.total_count_change == before.total_count_change + new, "C16: total_count_change counts each distinct match once");
    assert!(s.current_count_change == before.current_count_change + new, "C16: current_count_change equals the change of current_count");
    if already {
        assert!(r.reader.matched_publication_list[0].ownership_strength.value == 5, "C16: a re-announcement replaces the stored data of the matched writer");
    }
    kani::cover!(already, "re-announcement of the matched writer");
    kani::cover!(!already && before.current_count_change < 0, "new writer after unread losses");
    core::mem::forget(r);
}

// ---- participant level -----------------------------------------------------------------------------------------

/// Participant + publisher (real create) + directly installed writer matched (statements of the success branch of
/// process_discovered_readers, see support_part1::match_reader) with reader (1,1) of remote participant 1 and, if
/// `two`, reader (q,1) of remote participant q in {1,2}... here reader (q,2).
// Participant-level harnesses: one matched endpoint per local writer / reader (see MAXN); publisher / subscriber
// installed directly (support_part1::install_publisher) - the real create call is C35's / C36's subject.
fn writer_fixture(p: &mut DcpsDomainParticipant) -> (InstanceHandle, InstanceHandle) {
    let mut w = s1::make_writer(0, 0, "A", DataWriterQos::const_default());
    s1::match_reader(&mut w, s1::remote_reader_guid(1, 1), true);
    let wh = w.writer.instance_handle;
    let ph = s1::install_publisher_with(p, Some(w));
    (ph, wh)
}

fn writer_participant_removed(removed: u8) {
    // one matched reliable reader (1,1) of remote participant 1; participant `removed` in {1,3} leaves
    let cap = sp::Capture::new();
    let mut p = sp::participant(&cap, 0);
    let (_ph, _wh) = writer_fixture(&mut p);
    let before = p.domain_participant.user_defined_publisher_list[0].data_writer_list[0].publication_matched_status.clone();
    let gone = removed == 1;

    p.remove_discovered_participant(&s1::remote_participant_handle(removed));

    let w = &p.domain_participant.user_defined_publisher_list[0].data_writer_list[0];
    let len = w.matched_subscription_list.len();
    let s = w.publication_matched_status.clone();
    assert!(sub_listed(w, s1::remote_reader_guid(1, 1)) == !gone, "C16: readers of the departed participant leave the matched set, others stay");
    assert!(len == 1 - gone as usize, "C16: matched set shrinks by the readers of the departed participant");
    // a reliable proxy that acknowledged nothing holds back sequence number 1: proxy present <=> not acknowledged
    assert!(w.writer.transport_writer.is_change_acknowledged(1) == gone, "C16: RTPS proxies of departed readers are deleted, others kept");
    assert!(s.total_count == before.total_count && s.total_count_change == before.total_count_change, "C16: total_count unchanged by a departure");
    assert!(s.current_count == len as i32, "C16: current_count equals the number of matched readers after a participant departure");
    assert!(s.current_count_change == before.current_count_change - gone as i32, "C16: current_count_change reflects the departure");
    kani::cover!(true, "end reached");
    core::mem::forget(p);
}

// PARKED (not run, not claimed): measured: CBMC out of memory at 10 GB (exit 6) after 100-245 s; the defect it encodes is listed in the family report as a reading finding
// @parked props=C16 tier=thorough known=KF-C16-1
// @desc KNOWN FINDING: remove_discovered_participant (lease expiry, SPDP disposal, ignore_participant) removes the departed participant's readers from matched_subscription_list and deletes their RTPS proxies but does NOT update publication_matched_status: current_count keeps the old value (!= number of matched readers) and current_count_change does not record the drop (the status condition / listener are not notified either)
// @bounds one writer, 1 matched reader of remote participant 1; participant 1 departs
// @assume trigger: at least one matched reader belongs to the departed participant
// @enc DcpsDomainParticipant::remove_discovered_participant
#[kani::proof]
#[kani::unwind(2)]
#[kani::stub(critical_section::acquire, super::support_cs::cs_acquire)]
#[kani::stub(critical_section::release, super::support_cs::cs_release)]
fn c16_writer_participant_removed__known() {
    s1::link_drop_glue();
    writer_participant_removed(1);
}

// PARKED (not run, not claimed): measured: CBMC out of memory at 10 GB (exit 6) after 100-245 s; the defect it encodes is listed in the family report as a reading finding
// @parked props=C16 tier=thorough
// @desc sibling of KF-C16-1 with the trigger negated: a participant none of whose readers is matched with the writer departs (remove_discovered_participant): matched set, counters and RTPS proxies are unchanged
// @bounds one writer, 1 matched reader of remote participant 1; participant 3 departs
// @assume negated trigger: no matched reader belongs to the departed participant
// @enc DcpsDomainParticipant::remove_discovered_participant
#[kani::proof]
#[kani::unwind(2)]
#[kani::stub(critical_section::acquire, super::support_cs::cs_acquire)]
#[kani::stub(critical_section::release, super::support_cs::cs_release)]
fn c16_writer_participant_removed__rest() {
    s1::link_drop_glue();
    writer_participant_removed(3);
}

fn reader_fixture(p: &mut DcpsDomainParticipant) -> (InstanceHandle, InstanceHandle) {
    let mut r = s1::make_reader(0, 0, "A", DataReaderQos::const_default());
    s1::match_writer(&mut r, s1::remote_writer_guid(1, 1), true);
    let rh = r.reader.instance_handle;
    let sh = s1::install_subscriber_with(p, Some(r));
    (sh, rh)
}

fn reader_participant_removed(removed: u8) {
    let cap = sp::Capture::new();
    let mut p = sp::participant(&cap, 0);
    let (_sh, _rh) = reader_fixture(&mut p);
    let before = p.domain_participant.user_defined_subscriber_list[0].data_reader_list[0].subscription_matched_status.clone();
    let gone = removed == 1;

    p.remove_discovered_participant(&s1::remote_participant_handle(removed));

    let r = &mut p.domain_participant.user_defined_subscriber_list[0].data_reader_list[0];
    let proxy1 = r.reader.transport_reader.matched_writer_lookup(s1::remote_writer_guid(1, 1)).is_some();
    assert!(proxy1 == !gone, "C16: RTPS writer proxies of the departed participant are deleted, others kept");
    let s = r.subscription_matched_status.clone();
    assert!(s.total_count == before.total_count && s.total_count_change == before.total_count_change, "C16: total_count unchanged by a departure");
    assert!(pub_listed(r, s1::remote_writer_guid(1, 1)) == !gone, "C16: writers of the departed participant leave the matched set, others stay");
    let len = r.reader.matched_publication_list.len();
    assert!(len == 1 - gone as usize, "C16: matched set shrinks by the writers of the departed participant");
    assert!(s.current_count == 1 - gone as i32, "C16: current_count equals the number of matched writers after a participant departure");
    assert!(s.current_count_change == before.current_count_change - gone as i32, "C16: current_count_change reflects the departure (reader)");
    kani::cover!(true, "end reached");
    core::mem::forget(p);
}

// PARKED (not run, not claimed): measured: CBMC out of memory at 10 GB (exit 6) after 100-245 s; the defect it encodes is listed in the family report as a reading finding
// @parked props=C16 tier=thorough known=KF-C16-2
// @desc KNOWN FINDING: remove_discovered_participant deletes the RTPS writer proxies and the samples of the departed participant's writers on a local reader but leaves them in matched_publication_list and leaves subscription_matched_status untouched: get_matched_publications still lists the departed writers, current_count does not drop, no change is recorded
// @bounds one reader, 1 matched writer of remote participant 1; participant 1 departs
// @assume trigger: at least one matched writer belongs to the departed participant
// @enc DcpsDomainParticipant::remove_discovered_participant
#[kani::proof]
#[kani::unwind(2)]
#[kani::stub(critical_section::acquire, super::support_cs::cs_acquire)]
#[kani::stub(critical_section::release, super::support_cs::cs_release)]
fn c16_reader_participant_removed__known() {
    s1::link_drop_glue();
    reader_participant_removed(1);
}

// PARKED (not run, not claimed): measured: CBMC out of memory at 10 GB (exit 6) after 100-245 s; the defect it encodes is listed in the family report as a reading finding
// @parked props=C16 tier=thorough
// @desc sibling of KF-C16-2 with the trigger negated: a participant none of whose writers is matched with the reader departs: matched set, counters and RTPS writer proxies unchanged
// @bounds one reader, 1 matched writer of remote participant 1; participant 3 departs
// @assume negated trigger: no matched writer belongs to the departed participant
// @enc DcpsDomainParticipant::remove_discovered_participant
#[kani::proof]
#[kani::unwind(2)]
#[kani::stub(critical_section::acquire, super::support_cs::cs_acquire)]
#[kani::stub(critical_section::release, super::support_cs::cs_release)]
fn c16_reader_participant_removed__rest() {
    s1::link_drop_glue();
    reader_participant_removed(3);
}
