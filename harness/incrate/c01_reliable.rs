// C01 — reliable delivery, decided as an assume/guarantee chain of one-step obligations on the real
// RTPS objects (see vlib/ptab/rtps_proto.py for the composition argument and what is outside).
use alloc::sync::Arc;
use alloc::vec::Vec;

use super::support_rtps as s;
use crate::rtps_messages::submessages::info_destination::InfoDestinationSubmessage;
use crate::rtps_messages::types::{ACKNACK, DATA, GAP, HEARTBEAT, INFO_DST, INFO_TS};
use crate::rtps_messages::submessage_elements::{Data, Parameter, ParameterList, SequenceNumberSet};
use crate::rtps_messages::submessages::ack_nack::AckNackSubmessage;
use crate::rtps_messages::submessages::data::DataSubmessage;
use crate::rtps_messages::submessages::gap::GapSubmessage;
use crate::rtps_messages::submessages::heartbeat::HeartbeatSubmessage;
use crate::transport::types::{ChangeKind, DurabilityKind, Guid, ReliabilityKind};

/// Representation invariant of a writer proxy (reader side), re-established by every step:
/// first_available >= 1 (RTPS: HEARTBEAT.firstSN > 0), highest_received >= 0, last_available >= 0.
fn inv(first: i64, last: i64, highest: i64) -> bool {
    first >= 1 && highest >= 0 && last >= 0
}
/// Environment assumption (not inductive): fewer than 2^63-16 samples, i.e. no sequence number
/// within 16 of i64::MAX (the code computes sn+1 / first-1 with plain arithmetic).
const SN_TOP: i64 = i64::MAX - 16;
fn below_top(first: i64, last: i64, highest: i64) -> bool {
    first <= SN_TOP && highest <= SN_TOP && last <= SN_TOP
}

// @check props=C01 tier=quick
// @desc Reliable reader safety step: from every writer-proxy state (first_available, last_available, highest_received) and for EVERY incoming DATA sequence number (full i64), a change is appended iff the DATA comes from the matched writer and sn == available_changes_max+1; then available_changes_max grows by exactly 1 and the appended change carries the submessage's sn, writer guid, kind, key hash and payload bytes; otherwise nothing changes. By induction over deliveries (any loss/duplication/reorder pattern) the accepted sequence is exactly-once, in order, intact.
// @bounds proxy state and sn over full i64 under the invariant; payload length 0..=3 symbolic bytes; optional 16-byte key hash; unwind 3 (memcmp 17)
// @assume writer-proxy representation invariant: first_available >= 1, highest_received >= 0, last_available >= 0 (re-asserted after the step)
// @assume environment: no sequence number within 16 of i64::MAX (fewer than 2^63 samples per writer)
// @enc rtps::stateful_reader::RtpsStatefulReader::on_data_submessage
// @enc rtps::writer_proxy::RtpsWriterProxy::available_changes_max
// @enc rtps::writer_proxy::RtpsWriterProxy::received_change_set
// @enc rtps::cache_change::CacheChange::try_from_data_submessage
#[kani::proof]
#[kani::unwind(3)]
fn c01_reader_data_step() {
    let mut r = s::new_reader(ReliabilityKind::Reliable);
    let first: i64 = kani::any();
    let last: i64 = kani::any();
    let highest: i64 = kani::any();
    kani::assume(inv(first, last, highest) && below_top(first, last, highest));
    s::set_proxy_state(&mut r, first, last, highest);
    let old_max = s::proxy(&mut r).available_changes_max();

    let sn: i64 = kani::any();
    let bytes: [u8; 3] = kani::any();
    let len: usize = kani::any();
    kani::assume(len <= 3);
    let payload = s::payload3(&bytes, len);
    let from_matched_writer: bool = kani::any();
    let has_key: bool = kani::any();
    let key: [u8; 16] = kani::any();
    let mut params = Vec::new();
    if has_key {
        params.push(Parameter::new(crate::rtps::cache_change::PID_KEY_HASH, Arc::from(key)));
    }
    let data = DataSubmessage::new(
        true, true, false, false, s::R_ID, s::W_ID, sn, ParameterList::new(params), Data::new(payload),
    );
    let src = if from_matched_writer { s::W_PREFIX } else { s::R_PREFIX };
    r.on_data_submessage(&data, src, None);

    let new_max = s::proxy(&mut r).available_changes_max();
    let n = r.changes_mut().len();
    if from_matched_writer && sn == old_max + 1 {
        assert!(n == 1, "C01: the next expected change is accepted exactly once");
        assert!(new_max == old_max + 1, "C01: available_changes_max advances by exactly one");
        let c = &r.changes_mut()[0];
        assert!(c.sequence_number == sn, "C01: accepted change keeps its sequence number");
        assert!(c.writer_guid == s::W_GUID, "C01: accepted change is attributed to the sending writer");
        assert!(c.kind == ChangeKind::Alive, "C01: accepted change keeps its kind");
        assert!(c.data_value.len() == len, "C01: payload length intact");
        assert!(len < 1 || c.data_value[0] == bytes[0], "C01: payload byte 0 intact");
        assert!(len < 2 || c.data_value[1] == bytes[1], "C01: payload byte 1 intact");
        assert!(len < 3 || c.data_value[2] == bytes[2], "C01: payload byte 2 intact");
        assert!(c.instance_handle == if has_key { Some(key) } else { None }, "C01: key hash intact");
    } else {
        assert!(n == 0, "C01: a DATA that is not the next expected one is not accepted (no duplicate, no reordering)");
        assert!(new_max == old_max, "C01: rejected DATA does not move available_changes_max");
    }
    assert!(inv(first, last, core::cmp::max(highest, new_max)), "C01: invariant re-established");
    kani::cover!(n == 1 && len == 3 && has_key, "a change with 3 payload bytes and key hash is accepted");
    kani::cover!(n == 0 && from_matched_writer && sn <= old_max, "duplicate / old DATA rejected");
    kani::cover!(n == 0 && from_matched_writer && sn > old_max + 1, "out-of-order (future) DATA rejected");
    kani::cover!(n == 1 && first - 1 > highest, "acceptance right after a lost-changes jump");
    core::mem::forget(r);
    core::mem::forget(data);
}

/// Collect a SequenceNumberSet into a small array (count, elements).
fn set_elems(set: &SequenceNumberSet) -> (usize, [i64; 6]) {
    let mut out = [0i64; 6];
    let mut n = 0;
    for x in set.set() {
        if n < 6 {
            out[n] = x;
        }
        n += 1;
    }
    (n, out)
}

// @check props=C01 tier=quick
// @desc Reader request step: after a fresh HEARTBEAT(first,last,count) that obliges an answer (not final, or final without liveliness flag and something missing) the reader's writer proxy emits exactly one datagram INFO_DST(writer prefix)+ACKNACK (decoded with the real per-submessage decoders) whose bitmap base is available_changes_max+1 and whose set is exactly the missing sequence numbers max(first,highest+1)..=last; the ACKNACK count increases; a stale HEARTBEAT (count not greater) changes nothing and emits nothing. Confirms that the `!count()==0` disjunct in RtpsWriterProxy::write_message is dead (bitwise NOT on usize): ACKNACKs depend on must_send_acknacks alone, which the HEARTBEAT glue sets as RTPS 8.4.12.2 requires - no violation of C01 follows from it.
// @bounds proxy state symbolic under the invariant with sequence numbers <= 1000; at most 4 missing sequence numbers after the HEARTBEAT; no buffered fragments (fragment cases: c01_progress_*, c05_nackfrag_*); unwind 6 (memcmp 17, Vec<u8>::extend_with 17)
// @assume writer-proxy representation invariant; HEARTBEAT validity (RTPS 8.3.7.5): firstSN >= 1, lastSN >= firstSN-1
// @assume the statements handle_heartbeat_submessage executes on the looked-up writer proxy are replicated by support_rtps::glue_heartbeat_proxy (source guard in vlib/ptab/rtps_proto.py); the lookup itself is exercised by c01_reader_data_step / c01_progress_round
// @enc rtps::writer_proxy::RtpsWriterProxy::write_message
// @enc rtps::writer_proxy::RtpsWriterProxy::missing_changes
// @enc rtps::writer_proxy::RtpsWriterProxy::missing_changes_update
// @enc rtps::writer_proxy::RtpsWriterProxy::lost_changes_update
// @enc rtps_messages::submessages::ack_nack::AckNackSubmessage::try_from_bytes
#[kani::proof]
#[kani::unwind(6)]
fn c01_reader_heartbeat_acknack() {
    let mut wp = s::new_proxy(ReliabilityKind::Reliable);
    let first0: i64 = kani::any();
    let last0: i64 = kani::any();
    let highest: i64 = kani::any();
    kani::assume(inv(first0, last0, highest) && first0 <= 1000 && last0 <= 1000 && highest <= 1000);
    wp.lost_changes_update(first0);
    wp.missing_changes_update(last0);
    wp.irrelevant_change_set(highest);
    let old_hb_count: i32 = kani::any();
    wp.set_last_received_heartbeat_count(old_hb_count);
    if kani::any() {
        wp.increment_acknack_count();
    }
    let old_an_count = wp.acknack_count();

    let first: i64 = kani::any();
    let last: i64 = kani::any();
    let count: i32 = kani::any();
    let final_flag: bool = kani::any();
    let liveliness_flag: bool = kani::any();
    kani::assume(first >= 1 && first <= 1000 && last >= first - 1 && last <= 1000);
    let first_missing = core::cmp::max(first, highest + 1);
    kani::assume(last - first_missing < 4);
    let hb = HeartbeatSubmessage::new(final_flag, liveliness_flag, s::R_ID, s::W_ID, first, last, count);
    let out = s::Capture::new();
    let accepted = s::glue_heartbeat_proxy(&mut wp, &s::R_GUID, &hb, &out);

    assert!(accepted == (count > old_hb_count), "C01: HEARTBEAT accepted iff its count is fresh");
    let msgs = out.take();
    let n_missing = if last >= first_missing { (last - first_missing + 1) as usize } else { 0 };
    let must_answer = accepted && (!final_flag || (!liveliness_flag && n_missing > 0));
    if !accepted {
        assert!(msgs.len() == 0, "C01: stale HEARTBEAT is ignored");
        assert!(wp.available_changes_max() == core::cmp::max(first0 - 1, highest), "C01: stale HEARTBEAT changes nothing");
    } else {
        let max = wp.available_changes_max();
        assert!(max == first_missing - 1, "C01: after the HEARTBEAT everything below max(first,highest+1) is received or lost");
        if must_answer {
            assert!(msgs.len() == 1, "C01: exactly one ACKNACK datagram answers the HEARTBEAT");
            let m = &msgs[0][..];
            assert!(m.len() > s::RTPS_HEADER_LEN && m[0] == b'R' && m[1] == b'T' && m[2] == b'P' && m[3] == b'S', "C01: RTPS datagram");
            assert!(m[8] == s::R_PREFIX[0] && m[19] == s::R_PREFIX[11], "C01: ACKNACK datagram carries the reader's prefix");
            let mut rest = &m[s::RTPS_HEADER_LEN..];
            let (h0, b0) = s::next_sub(&mut rest).unwrap();
            assert!(h0.submessage_id() == INFO_DST, "C01: first submessage is INFO_DST");
            let d = InfoDestinationSubmessage::try_from_bytes(&h0, b0).unwrap();
            assert!(d.guid_prefix() == s::W_PREFIX, "C01: ACKNACK addressed to the writer's participant");
            let (h1, b1) = s::next_sub(&mut rest).unwrap();
            assert!(h1.submessage_id() == ACKNACK, "C01: second submessage is ACKNACK");
            assert!(rest.len() == 0, "C01: INFO_DST + ACKNACK and nothing else");
            let a = AckNackSubmessage::try_from_bytes(&h1, b1).unwrap();
            assert!(*a.reader_id() == s::R_ID && *a.writer_id() == s::W_ID, "C01: ACKNACK names reader and writer");
            assert!(a.reader_sn_state().base() == max + 1, "C01: ACKNACK base = available_changes_max + 1");
            assert!(a.count() == old_an_count.wrapping_add(1), "C01: ACKNACK count increases");
            let (n, e) = set_elems(a.reader_sn_state());
            assert!(n == n_missing, "C01: ACKNACK names exactly the missing sequence numbers (cardinality)");
            assert!(n < 1 || e[0] == first_missing, "C01: ACKNACK names exactly the missing sequence numbers (1st)");
            assert!(n < 2 || e[1] == first_missing + 1, "C01: ACKNACK names exactly the missing sequence numbers (2nd)");
            assert!(n < 3 || e[2] == first_missing + 2, "C01: ACKNACK names exactly the missing sequence numbers (3rd)");
            assert!(n < 4 || e[3] == first_missing + 3, "C01: ACKNACK names exactly the missing sequence numbers (4th)");
            kani::cover!(n_missing == 4, "ACKNACK requesting 4 missing changes");
            kani::cover!(n_missing == 0, "pure acknowledgement (nothing missing)");
            kani::cover!(first - 1 > highest && n_missing > 0, "request after changes were declared lost");
        } else {
            assert!(msgs.len() == 0, "C01: no ACKNACK where RTPS does not require one");
            kani::cover!(final_flag && liveliness_flag && n_missing > 0, "final+liveliness HEARTBEAT with missing changes: the dead `!count()==0` disjunct would have answered");
        }
    }
    kani::cover!(!accepted, "stale HEARTBEAT");
    core::mem::forget(msgs);
    core::mem::forget(wp);
}
