// C01 — reliable delivery, decided as an assume/guarantee chain of one-step obligations on the real
// RTPS objects (see vlib/ptab/rtps_proto.py for the composition argument and what is outside).
use alloc::sync::Arc;
use alloc::vec::Vec;

use super::support_rtps as s;
use crate::rtps_messages::types::{ACKNACK, INFO_DST, NACK_FRAG};
use crate::rtps_messages::submessage_elements::{Data, Parameter, ParameterList, SequenceNumberSet};
use crate::rtps_messages::submessages::ack_nack::AckNackSubmessage;
use crate::rtps_messages::submessages::data::DataSubmessage;
use crate::rtps_messages::submessages::gap::GapSubmessage;
use crate::rtps_messages::submessages::heartbeat::HeartbeatSubmessage;
use crate::transport::types::{ChangeKind, DurabilityKind, Guid, ReliabilityKind};

/// Representation invariant of a writer proxy (reader side), re-established by every step:
/// first_available >= 1 (RTPS: HEARTBEAT.firstSN > 0), highest_received >= 0, last_available >= 0.
fn inv(first: i64, last: i64, highest: i64) -> bool {
    first >= 1 && highest >= 0 && last >= 0
}
/// Environment assumption (not inductive): fewer than 2^63-16 samples, i.e. no sequence number
/// within 16 of i64::MAX (the code computes sn+1 / first-1 with plain arithmetic).
const SN_TOP: i64 = i64::MAX - 16;
fn below_top(first: i64, last: i64, highest: i64) -> bool {
    first <= SN_TOP && highest <= SN_TOP && last <= SN_TOP
}

// @check props=C01 tier=quick
// @desc Reliable reader safety step: from every writer-proxy state (first_available, last_available, highest_received) and for EVERY incoming DATA sequence number (full i64), a change is appended iff the DATA comes from the matched writer and sn == available_changes_max+1; then available_changes_max grows by exactly 1 and the appended change carries the submessage's sn, writer guid, kind, key hash and payload bytes; otherwise nothing changes. By induction over deliveries (any loss/duplication/reorder pattern) the accepted sequence is exactly-once, in order, intact.
// @bounds proxy state and sn over full i64 under the invariant; payload length 0..=3 symbolic bytes; optional 16-byte key hash; unwind 3 (memcmp 17)
// @assume writer-proxy representation invariant: first_available >= 1, highest_received >= 0, last_available >= 0 (re-asserted after the step)
// @assume environment: no sequence number within 16 of i64::MAX (fewer than 2^63 samples per writer)
// @enc rtps::stateful_reader::RtpsStatefulReader::on_data_submessage
// @enc rtps::writer_proxy::RtpsWriterProxy::available_changes_max
// @enc rtps::writer_proxy::RtpsWriterProxy::received_change_set
// @enc rtps::cache_change::CacheChange::try_from_data_submessage
#[kani::proof]
#[kani::unwind(3)]
fn c01_reader_data_step() {
    let mut r = s::new_reader(ReliabilityKind::Reliable);
    let first: i64 = kani::any();
    let last: i64 = kani::any();
    let highest: i64 = kani::any();
    kani::assume(inv(first, last, highest) && below_top(first, last, highest));
    s::set_proxy_state(&mut r, first, last, highest);
    let old_max = s::proxy(&mut r).available_changes_max();

    let sn: i64 = kani::any();
    let bytes: [u8; 3] = kani::any();
    let len: usize = kani::any();
    kani::assume(len <= 3);
    let payload = s::payload3(&bytes, len);
    let from_matched_writer: bool = kani::any();
    let has_key: bool = kani::any();
    let key: [u8; 16] = kani::any();
    let mut params = Vec::new();
    if has_key {
        params.push(Parameter::new(crate::rtps::cache_change::PID_KEY_HASH, Arc::from(key)));
    }
    let data = DataSubmessage::new(
        true, true, false, false, s::R_ID, s::W_ID, sn, ParameterList::new(params), Data::new(payload),
    );
    let src = if from_matched_writer { s::W_PREFIX } else { s::R_PREFIX };
    r.on_data_submessage(&data, src, None);

    let new_max = s::proxy(&mut r).available_changes_max();
    let n = r.changes_mut().len();
    if from_matched_writer && sn == old_max + 1 {
        assert!(n == 1, "C01: the next expected change is accepted exactly once");
        assert!(new_max == old_max + 1, "C01: available_changes_max advances by exactly one");
        let c = &r.changes_mut()[0];
        assert!(c.sequence_number == sn, "C01: accepted change keeps its sequence number");
        assert!(c.writer_guid == s::W_GUID, "C01: accepted change is attributed to the sending writer");
        assert!(c.kind == ChangeKind::Alive, "C01: accepted change keeps its kind");
        assert!(c.data_value.len() == len, "C01: payload length intact");
        assert!(len < 1 || c.data_value[0] == bytes[0], "C01: payload byte 0 intact");
        assert!(len < 2 || c.data_value[1] == bytes[1], "C01: payload byte 1 intact");
        assert!(len < 3 || c.data_value[2] == bytes[2], "C01: payload byte 2 intact");
        assert!(c.instance_handle == if has_key { Some(key) } else { None }, "C01: key hash intact");
    } else {
        assert!(n == 0, "C01: a DATA that is not the next expected one is not accepted (no duplicate, no reordering)");
        assert!(new_max == old_max, "C01: rejected DATA does not move available_changes_max");
    }
    assert!(inv(first, last, core::cmp::max(highest, new_max)), "C01: invariant re-established");
    kani::cover!(n == 1 && len == 3 && has_key, "a change with 3 payload bytes and key hash is accepted");
    kani::cover!(n == 0 && from_matched_writer && sn <= old_max, "duplicate / old DATA rejected");
    kani::cover!(n == 0 && from_matched_writer && sn > old_max + 1, "out-of-order (future) DATA rejected");
    kani::cover!(n == 1 && first - 1 > highest, "acceptance right after a lost-changes jump");
    core::mem::forget(r);
    core::mem::forget(data);
}

// @check props=C01,C04 tier=quick
// @desc Missing-set kernel: for every writer-proxy state (first_available, last_available, highest_received) under the invariant, missing_changes() yields exactly the sequence numbers max(first_available, highest_received+1) ..= last_available in increasing order (empty when that range is empty), available_changes_max() == max(first_available-1, highest_received), and is_historical_data_received() holds iff a HEARTBEAT was accepted (last count > 0) and that range is empty.
// @bounds full i64 state under the invariant; count of missing changes compared exactly, first three elements compared; loop-free except the 3-element prefix (unwind 5)
// @assume writer-proxy representation invariant; environment: no sequence number within 16 of i64::MAX
// @enc rtps::writer_proxy::RtpsWriterProxy::missing_changes
// @enc rtps::writer_proxy::RtpsWriterProxy::available_changes_max
// @enc rtps::writer_proxy::RtpsWriterProxy::is_historical_data_received
#[kani::proof]
#[kani::unwind(5)]
fn c01_missing_changes_kernel() {
    let mut wp = s::new_proxy(ReliabilityKind::Reliable);
    let first: i64 = kani::any();
    let last: i64 = kani::any();
    let highest: i64 = kani::any();
    kani::assume(inv(first, last, highest) && below_top(first, last, highest));
    wp.lost_changes_update(first);
    wp.missing_changes_update(last);
    wp.received_change_set(highest);
    let hb_count: i32 = kani::any();
    wp.set_last_received_heartbeat_count(hb_count);
    let fm = core::cmp::max(first, highest + 1);
    let expect_n: u64 = if last >= fm { (last - fm) as u64 + 1 } else { 0 };
    assert!(wp.available_changes_max() == fm - 1, "C01: available_changes_max = max(first-1, highest)");
    assert!(wp.missing_changes().count() as u64 == expect_n, "C01: number of missing changes");
    {
        let mut it = wp.missing_changes();
        let mut k: i64 = 0;
        while k < 3 {
            let x = it.next();
            if (k as u64) < expect_n {
                assert!(x == Some(fm + k), "C01: missing changes are max(first,highest+1).. in increasing order");
            } else {
                assert!(x.is_none(), "C01: nothing beyond last_available is reported missing");
            }
            k += 1;
        }
    }
    assert!(wp.is_historical_data_received() == (hb_count > 0 && expect_n == 0), "C04: historical data received iff a HEARTBEAT was seen and nothing is missing");
    kani::cover!(expect_n == 2 && first > highest + 1, "two missing after a lost-changes jump");
    kani::cover!(expect_n == 0 && hb_count > 0, "historical data complete");
    kani::cover!(expect_n > 0 && hb_count > 0, "heartbeat seen but changes still missing");
    kani::cover!(expect_n == 0 && hb_count == 0, "nothing missing but no heartbeat yet");
    core::mem::forget(wp);
}

// @check props=C01 tier=quick
// @desc Reader GAP step on a writer proxy: GAP(gapStart = g, gapList.base = b, bitmap empty or with the single bit b) processed by the statements of handle_gap_submessage (irrelevant_change_range + irrelevant_change_set per bit). A sequence number may become available only if every number between the old available_changes_max and it is covered by the GAP: a range adjacent to or overlapping the received prefix (g <= max+1 < b) extends available_changes_max to b-1, the bit b extends it by one more iff b is then the next expected number; a GAP that starts beyond the next expected change (an earlier DATA was lost or overtaken - scenario of the defect repaired by fix 1d4869a) leaves available_changes_max unchanged, and the changes before the gap are still the first ones reported by missing_changes() (so the next ACKNACK names them, c01_reader_heartbeat_acknack).
// @bounds proxy state symbolic with sequence numbers <= 1000, gapStart in 1..=1003, gapList.base in gapStart..=3000 (range of any length), bitmap empty or {base}; unwind 4
// @assume glue statements of handle_gap_submessage replicated by support_rtps::glue_gap_proxy (source guard)
// @enc rtps::writer_proxy::RtpsWriterProxy::irrelevant_change_range
// @enc rtps::writer_proxy::RtpsWriterProxy::irrelevant_change_set
// @enc rtps::writer_proxy::RtpsWriterProxy::available_changes_max
// @enc rtps::writer_proxy::RtpsWriterProxy::missing_changes
#[kani::proof]
#[kani::unwind(4)]
fn c01_reader_gap_step() {
    let mut wp = s::new_proxy(ReliabilityKind::Reliable);
    let first: i64 = kani::any();
    let highest: i64 = kani::any();
    kani::assume(first >= 1 && highest >= 0 && first <= 1000 && highest <= 1000);
    wp.lost_changes_update(first);
    wp.received_change_set(highest);
    let old_max = wp.available_changes_max();
    let g: i64 = kani::any();
    let b: i64 = kani::any();
    kani::assume(g >= 1 && g <= 1003 && b >= g && b <= 3000);
    let with_bit: bool = kani::any();
    let gap = if with_bit {
        GapSubmessage::new(s::R_ID, s::W_ID, g, SequenceNumberSet::new(b, [b]))
    } else {
        GapSubmessage::new(s::R_ID, s::W_ID, g, SequenceNumberSet::new(b, []))
    };
    s::glue_gap_proxy(&mut wp, &gap);
    let new_max = wp.available_changes_max();
    let after_range = if g <= old_max + 1 && b > old_max + 1 { b - 1 } else { old_max };
    let expect = if with_bit && b == after_range + 1 { b } else { after_range };
    assert!(new_max >= old_max, "C01: a GAP never makes available changes unavailable");
    assert!(new_max == expect, "C01: a GAP extends the available prefix exactly over the irrelevant numbers adjacent to it and never skips a change that is still missing");
    if g > old_max + 1 {
        assert!(new_max == old_max, "C01: a GAP that starts beyond the next expected change must not skip the changes before it (they are still missing)");
        wp.missing_changes_update(b);
        assert!(wp.missing_changes().next() == Some(old_max + 1), "C01: the changes before a non-adjacent GAP are still reported missing");
    }
    kani::cover!(g == old_max + 1 && b == g + 1000 && !with_bit, "GAP of a thousand changes right after the received prefix");
    kani::cover!(g < old_max && b - 1 > old_max, "GAP overlapping the received prefix");
    kani::cover!(b == g && with_bit && new_max == b, "empty range, bit for the next expected change");
    kani::cover!(g == old_max + 2 && b > g, "exactly one change missing before the gap");
    kani::cover!(g <= old_max + 1 && b > old_max + 1 && with_bit && new_max == b, "range plus bit consumed");
    core::mem::forget(wp);
    core::mem::forget(gap);
}

/// ACKNACK wire layout (RTPS 9.4.5.2), offsets from the submessage header:
/// readerId 4, writerId 8, readerSNState.base 12, numBits 20, bitmap 24.., count after the bitmap.
const AN_READER: usize = 4;
const AN_WRITER: usize = 8;
const AN_BASE: usize = 12;
const AN_NUMBITS: usize = 20;
const AN_BITMAP: usize = 24;
/// NACK_FRAG wire layout (9.4.5.13): readerId 4, writerId 8, writerSN 12, fragmentNumberState.base 20,
/// numBits 24, bitmap 28.., count after the bitmap.
const NF_SN: usize = 12;
const NF_BASE: usize = 20;
const NF_NUMBITS: usize = 24;
const NF_BITMAP: usize = 28;

/// The first `n` (<= 4) bits of a bitmap word, MSB first (9.4.2.6): bit i set <=> base+i is in the set.
fn top_bits(n: u32) -> u32 {
    match n {
        0 => 0,
        1 => 0x8000_0000,
        2 => 0xC000_0000,
        3 => 0xE000_0000,
        _ => 0xF000_0000,
    }
}

// @check props=C01 tier=quick
// @desc Reader request step: after a fresh HEARTBEAT(first,last,count) that obliges an answer (not final, or final without liveliness flag and something missing) the reader's writer proxy emits exactly one datagram INFO_DST(writer prefix)+ACKNACK whose bitmap base is available_changes_max+1 and whose set is exactly the missing sequence numbers max(first,highest+1)..=last (numBits and bitmap word compared); reader/writer ids, final flag and an increased count are checked; a stale HEARTBEAT (count not greater) changes nothing and emits nothing; no ACKNACK where RTPS 8.4.12.2 requires none. Confirms that the `!count()==0` disjunct in RtpsWriterProxy::write_message is dead (bitwise NOT on usize): ACKNACKs depend on must_send_acknacks alone, which the HEARTBEAT glue sets correctly - no violation of C01 follows from it.
// @bounds proxy state symbolic under the invariant with sequence numbers <= 1000; at most 4 missing sequence numbers after the HEARTBEAT; no buffered fragments (fragment cases: c01_acknack_with_fragment__*); HEARTBEAT and ACKNACK counts full i32; unwind 6
// @assume writer-proxy representation invariant; HEARTBEAT validity (RTPS 8.3.7.5): firstSN >= 1, lastSN >= firstSN-1
// @assume the statements handle_heartbeat_submessage executes on the looked-up writer proxy are replicated by support_rtps::glue_heartbeat_proxy (source guard in vlib/ptab/rtps_proto.py); the lookup itself is exercised by c01_reader_data_step
// @assume datagram container stubbed by support_rtps::from_submessages_staged (real submessage encoders); fields read at RTPS 9.4.5.2 wire offsets; critical-section stubs (support_cs)
// @enc rtps::writer_proxy::RtpsWriterProxy::write_message
// @enc rtps::writer_proxy::RtpsWriterProxy::missing_changes
// @enc rtps::writer_proxy::RtpsWriterProxy::missing_changes_update
// @enc rtps::writer_proxy::RtpsWriterProxy::lost_changes_update
// @enc rtps_messages::submessages::ack_nack::AckNackSubmessage::write_submessage_elements_into_bytes
#[kani::proof]
#[kani::unwind(6)]
#[kani::stub(crate::rtps_messages::overall_structure::RtpsMessageWrite::from_submessages, super::support_rtps::from_submessages_staged)]
#[kani::stub(critical_section::acquire, super::support_cs::cs_acquire)]
#[kani::stub(critical_section::release, super::support_cs::cs_release)]
fn c01_reader_heartbeat_acknack() {
    let mut wp = s::new_proxy(ReliabilityKind::Reliable);
    let first0: i64 = kani::any();
    let last0: i64 = kani::any();
    let highest: i64 = kani::any();
    kani::assume(inv(first0, last0, highest) && first0 <= 1000 && last0 <= 1000 && highest <= 1000);
    wp.lost_changes_update(first0);
    wp.missing_changes_update(last0);
    wp.received_change_set(highest);
    let old_hb_count: i32 = kani::any();
    wp.set_last_received_heartbeat_count(old_hb_count);
    if kani::any() {
        wp.increment_acknack_count();
    }
    let old_an_count = wp.acknack_count();

    let first: i64 = kani::any();
    let last: i64 = kani::any();
    let count: i32 = kani::any();
    let final_flag: bool = kani::any();
    let liveliness_flag: bool = kani::any();
    kani::assume(first >= 1 && first <= 1000 && last >= first - 1 && last <= 1000);
    let first_missing = core::cmp::max(first, highest + 1);
    kani::assume(last - first_missing < 4);
    let hb = HeartbeatSubmessage::new(final_flag, liveliness_flag, s::R_ID, s::W_ID, first, last, count);
    let out = s::Sent::new();
    let accepted = s::glue_heartbeat_proxy(&mut wp, &s::R_GUID, &hb, &out);

    assert!(accepted == (count > old_hb_count), "C01: HEARTBEAT accepted iff its count is fresh");
    let n_msgs = s::staged_count();
    assert!(out.n.get() == n_msgs, "C01: every datagram built is handed to the transport");
    let n_missing: u32 = if last >= first_missing { (last - first_missing + 1) as u32 } else { 0 };
    let must_answer = accepted && (!final_flag || (!liveliness_flag && n_missing > 0));
    if !accepted {
        assert!(n_msgs == 0, "C01: stale HEARTBEAT is ignored");
        assert!(wp.available_changes_max() == core::cmp::max(first0 - 1, highest), "C01: stale HEARTBEAT changes nothing");
    } else {
        let max = wp.available_changes_max();
        assert!(max == first_missing - 1, "C01: after the HEARTBEAT everything below max(first,highest+1) is received or lost");
        if must_answer {
            assert!(n_msgs == 1, "C01: exactly one ACKNACK datagram answers the HEARTBEAT");
            let (nsub, prefix) = s::staged_meta(0);
            assert!(prefix == s::R_PREFIX, "C01: ACKNACK datagram carries the reader's prefix");
            assert!(nsub == 2, "C01: INFO_DST + ACKNACK and nothing else");
            let d = s::staged_sub(0, 0);
            assert!(d.id() == INFO_DST && d.octets() == 12 && d.at(4) == s::W_PREFIX[0] && d.at(15) == s::W_PREFIX[11], "C01: ACKNACK addressed to the writer's participant");
            let a = s::staged_sub(0, 1);
            assert!(a.id() == ACKNACK, "C01: second submessage is ACKNACK");
            assert!(a.octets() == a.len(), "C01: octetsToNextHeader is the element length");
            assert!(a.at(AN_READER) == 0 && a.at(AN_READER + 2) == 2 && a.at(AN_READER + 3) == 0x07, "C01: ACKNACK names the reader");
            assert!(a.at(AN_WRITER) == 0 && a.at(AN_WRITER + 2) == 1 && a.at(AN_WRITER + 3) == 0x02, "C01: ACKNACK names the writer");
            assert!(a.sn(AN_BASE) == max + 1, "C01: ACKNACK base = available_changes_max + 1");
            assert!(a.u32(AN_NUMBITS) == n_missing, "C01: ACKNACK names exactly the missing sequence numbers (numBits)");
            let m = if n_missing == 0 { 0 } else { 1 };
            assert!(a.len() + 4 == AN_BITMAP + 4 * m + 4, "C01: ACKNACK length = one bitmap word iff numBits > 0, then count");
            if n_missing > 0 {
                assert!(a.u32(AN_BITMAP) == top_bits(n_missing), "C01: ACKNACK names exactly the missing sequence numbers (bitmap)");
            }
            assert!(a.u32(AN_BITMAP + 4 * m) as i32 == old_an_count.wrapping_add(1), "C01: ACKNACK count increases");
            kani::cover!(n_missing == 4, "ACKNACK requesting 4 missing changes");
            kani::cover!(n_missing == 0, "pure acknowledgement (nothing missing)");
            kani::cover!(first - 1 > highest && n_missing > 0, "request after changes were declared lost");
        } else {
            assert!(n_msgs == 0, "C01: no ACKNACK where RTPS does not require one");
            kani::cover!(final_flag && liveliness_flag && n_missing > 0, "final+liveliness HEARTBEAT with missing changes: the dead `!count()==0` disjunct would have answered");
        }
    }
    kani::cover!(!accepted, "stale HEARTBEAT");
    core::mem::forget(wp);
}

/// Reader request step with ONE buffered fragment (fragment 1 of a 2-fragment sample `sn_f`).
/// `stale_only` restricts to the scenario of the repaired defect (fix 1d5179c): sn_f stopped being
/// missing (GAP / HEARTBEAT.firstSN moved past it) while changes are missing.
fn acknack_with_fragment(gapped: bool, stale_only: bool) -> (u32, bool) {
    let mut wp = s::new_proxy(ReliabilityKind::Reliable);
    let first0: i64 = kani::any();
    let highest: i64 = kani::any();
    kani::assume(first0 >= 1 && highest >= 0 && first0 <= 1000 && highest <= 1000);
    wp.lost_changes_update(first0);
    wp.received_change_set(highest);
    // a reliable reader buffers a fragment only for the sequence number it expects at that time
    let sn_f: i64 = wp.available_changes_max() + 1;
    let fbytes: [u8; 3] = kani::any();
    let c = s::change(sn_f, Arc::from(&fbytes[..]));
    let frag = c.as_data_frag_submessage(s::R_ID, s::W_ID, 2, 0);
    wp.push_data_frag(frag);
    // afterwards the sample may be declared irrelevant by a GAP (glue_gap_proxy's call) ...
    if gapped {
        wp.irrelevant_change_set(sn_f);
    }
    let highest = if gapped { sn_f } else { highest };

    // ... or lost by a HEARTBEAT whose firstSN moved past it
    let first: i64 = kani::any();
    let last: i64 = kani::any();
    let count: i32 = kani::any();
    kani::assume(first >= first0 && first <= 1000 && last >= first - 1 && last <= 1000);
    let first_missing = core::cmp::max(first, highest + 1);
    kani::assume(last >= first_missing - 1 && last - first_missing < 2);
    let n_missing: u32 = (last - first_missing + 1) as u32;
    let stale = sn_f < first_missing;
    let partial = sn_f >= first_missing && sn_f <= last;
    if stale_only {
        kani::assume(stale && n_missing >= 1);
    } else {
        kani::assume(!stale);
    }
    let hb = HeartbeatSubmessage::new(false, false, s::R_ID, s::W_ID, first, last, count);
    kani::assume(count > 0);
    let out = s::Sent::new();
    let accepted = s::glue_heartbeat_proxy(&mut wp, &s::R_GUID, &hb, &out);
    assert!(accepted, "C01: fresh HEARTBEAT accepted");
    assert!(s::staged_count() == 1 && out.n.get() == 1, "C01: exactly one datagram answers a non-final HEARTBEAT");
    let (nsub, _prefix) = s::staged_meta(0);
    let a = s::staged_sub(0, 1);
    assert!(a.id() == ACKNACK, "C01: second submessage is ACKNACK");
    assert!(a.sn(AN_BASE) == first_missing, "C01: ACKNACK base = available_changes_max + 1");
    // missing changes strictly below a partially received sample are requested by ACKNACK, the
    // partially received sample itself by NACK_FRAG; a fragment of a sample that is no longer
    // missing (stale) must not hide anything
    let below: u32 = if partial { (sn_f - first_missing) as u32 } else { n_missing };
    assert!(a.u32(AN_NUMBITS) == below, "C01: ACKNACK names every missing sequence number below a partially received sample (all of them if there is none)");
    if below > 0 {
        assert!(a.u32(AN_BITMAP) == top_bits(below), "C01: ACKNACK bitmap");
    }
    if partial {
        assert!(nsub == 3, "C05: a partially received missing sample is requested with a NACK_FRAG");
        let f = s::staged_sub(0, 2);
        assert!(f.id() == NACK_FRAG, "C05: third submessage is NACK_FRAG");
        assert!(f.sn(NF_SN) == sn_f, "C05: NACK_FRAG names the partially received sample");
        assert!(f.u32(NF_BASE) == 2 && f.u32(NF_NUMBITS) == 1 && f.u32(NF_BITMAP) == 0x8000_0000,
            "C05: NACK_FRAG names exactly the missing fragment numbers, 1-based (here: fragment 2 of 2)");
        // the writer accepts a NACK_FRAG only if count > last received count (initially 0)
        assert!(f.u32(NF_BITMAP + 4) as i32 > 0, "C05: the first NACK_FRAG of a reader carries a count greater than 0");
    } else {
        assert!(nsub == 2, "C05: no NACK_FRAG for a sample that is not announced missing (not yet announced, lost or irrelevant)");
    }
    core::mem::forget(wp);
    core::mem::forget(c);
    (n_missing, partial)
}

// @check props=C01 tier=quick
// @desc Reader request step after a buffered fragment became stale because HEARTBEAT.firstSN moved past its sample (scenario of the defect repaired by fix 1d5179c, e.g. lifespan expiry on the writer): the reader buffered fragment 1 of sample sn_f, then a HEARTBEAT with firstSN > sn_f arrives while changes are missing. The ACKNACK names EVERY missing sequence number and carries no NACK_FRAG: the stale fragment does not hide the missing changes from the writer.
// @bounds state symbolic with sequence numbers <= 1000, 1..=2 missing changes, one stale fragment; unwind 4
// @assume pre-state restricted to: HEARTBEAT.firstSN is above the buffered fragment's sequence number and changes are missing
// @assume datagram container stubbed by support_rtps::from_submessages_staged; critical-section stubs
// @enc rtps::writer_proxy::RtpsWriterProxy::write_message
// @enc rtps::writer_proxy::RtpsWriterProxy::lost_changes_update
#[kani::proof]
#[kani::unwind(4)]
#[kani::stub(crate::rtps_messages::overall_structure::RtpsMessageWrite::from_submessages, super::support_rtps::from_submessages_staged)]
#[kani::stub(critical_section::acquire, super::support_cs::cs_acquire)]
#[kani::stub(critical_section::release, super::support_cs::cs_release)]
fn c01_acknack_after_lost_fragment() {
    let (n_missing, _partial) = acknack_with_fragment(false, true);
    kani::cover!(n_missing == 2, "two changes missing, fragment of a lost (firstSN moved) sample was buffered");
    kani::cover!(n_missing == 1, "one change missing");
}

// Thorough tier only: needs the 16 GB limit of the C01 ptab entry (388 s; exceeded 12 GB before the driver dropped
// assertion reach checks) - the extra frag_buffer.retain on a non-empty heap buffer makes its length symbolic for every
// later loop of write_message.
// @check props=C01 tier=thorough
// @desc Reader request step after a buffered fragment became stale because a GAP declared its sample irrelevant (second scenario of the defect repaired by fix 1d5179c): the ACKNACK answering the next HEARTBEAT names every missing sequence number and carries no NACK_FRAG.
// @bounds state symbolic with sequence numbers <= 1000, 1..=2 missing changes, one fragment of a GAPped sample; unwind 4
// @assume datagram container stubbed by support_rtps::from_submessages_staged; critical-section stubs
// @enc rtps::writer_proxy::RtpsWriterProxy::write_message
// @enc rtps::writer_proxy::RtpsWriterProxy::irrelevant_change_set
#[kani::proof]
#[kani::unwind(4)]
#[kani::stub(crate::rtps_messages::overall_structure::RtpsMessageWrite::from_submessages, super::support_rtps::from_submessages_staged)]
#[kani::stub(critical_section::acquire, super::support_cs::cs_acquire)]
#[kani::stub(critical_section::release, super::support_cs::cs_release)]
fn c01_acknack_after_gapped_fragment() {
    let (n_missing, _partial) = acknack_with_fragment(true, true);
    kani::cover!(n_missing == 2, "two changes missing, fragment of a GAPped sample was buffered");
}

// @check props=C01,C05 tier=quick
// @desc Reader request step with a live buffered fragment: fragment 1 of 2 of the next expected sample sn_f is buffered, a non-final HEARTBEAT with firstSN <= sn_f arrives. The ACKNACK has base = available_changes_max+1 and names exactly the missing sequence numbers below the partially received sample; if sn_f is announced missing the datagram carries a third submessage NACK_FRAG(writerSN = sn_f) whose fragment set is exactly the missing fragment numbers in RTPS 1-based numbering ({2}) and whose count is greater than 0 (the writer accepts only count > last seen, initially 0); if sn_f is beyond lastSN there is no NACK_FRAG.
// @bounds state symbolic with sequence numbers <= 1000, 0..=2 missing changes, one buffered fragment of a 3-byte/2-fragment sample; unwind 4
// @assume a reliable reader buffers a fragment only for the sequence number it expects when the fragment arrives (on_data_frag_submessage)
// @assume datagram container stubbed by support_rtps::from_submessages_staged; critical-section stubs
// @enc rtps::writer_proxy::RtpsWriterProxy::write_message
// @enc rtps_messages::submessages::nack_frag::NackFragSubmessage::write_submessage_elements_into_bytes
#[kani::proof]
#[kani::unwind(4)]
#[kani::stub(crate::rtps_messages::overall_structure::RtpsMessageWrite::from_submessages, super::support_rtps::from_submessages_staged)]
#[kani::stub(critical_section::acquire, super::support_cs::cs_acquire)]
#[kani::stub(critical_section::release, super::support_cs::cs_release)]
fn c01_acknack_with_fragment() {
    let (n_missing, partial) = acknack_with_fragment(false, false);
    kani::cover!(partial && n_missing == 2, "partially received sample followed by a missing change: NACK_FRAG emitted");
    kani::cover!(!partial && n_missing == 0, "fragment of a not yet announced sample: no NACK_FRAG");
}

// NOT INDEXED (measured: CBMC error after 380 s / 12 GB and again after 555 s / 16 GB - two ACKNACK+NACK_FRAG emissions
// with a buffered fragment).
// The single-round obligation (count > 0 = greater than the writer's initial last-received count) is asserted by
// c01_acknack_with_fragment; strict growth over rounds follows from fix d91489d by code reading (wrapping_add(1) per emission).
// @disabled-check props=C05 tier=thorough
// @desc NACK_FRAG duplicate filter over two rounds: a reader holding fragment 1 of 2 of the missing sample answers two successive fresh HEARTBEATs; both answers carry a NACK_FRAG for that sample and the second NACK_FRAG count is strictly greater than the first, which is greater than 0 - so a writer that saw the first accepts the second (on_nack_frag_submessage_received: count > last_received_nack_frag_count).
// @bounds proxy state symbolic with sequence numbers <= 1000, the sample with the buffered fragment is the only missing one; unwind 4
// @assume datagram container stubbed by support_rtps::from_submessages_staged; critical-section stubs
// @enc rtps::writer_proxy::RtpsWriterProxy::write_message
#[kani::proof]
#[kani::unwind(4)]
#[kani::stub(crate::rtps_messages::overall_structure::RtpsMessageWrite::from_submessages, super::support_rtps::from_submessages_staged)]
#[kani::stub(critical_section::acquire, super::support_cs::cs_acquire)]
#[kani::stub(critical_section::release, super::support_cs::cs_release)]
fn c05_nackfrag_count_two_rounds() {
    let mut wp = s::new_proxy(ReliabilityKind::Reliable);
    let highest: i64 = kani::any();
    kani::assume(highest >= 0 && highest <= 1000);
    wp.received_change_set(highest);
    let sn_f = highest + 1;
    let fbytes: [u8; 3] = kani::any();
    let c = s::change(sn_f, Arc::from(&fbytes[..]));
    wp.push_data_frag(c.as_data_frag_submessage(s::R_ID, s::W_ID, 2, 0));
    let c1: i32 = kani::any();
    let c2: i32 = kani::any();
    kani::assume(c1 > 0 && c2 > c1);
    let out = s::Sent::new();
    let hb1 = HeartbeatSubmessage::new(false, false, s::R_ID, s::W_ID, 1, sn_f, c1);
    assert!(s::glue_heartbeat_proxy(&mut wp, &s::R_GUID, &hb1, &out), "C05: first HEARTBEAT accepted");
    let hb2 = HeartbeatSubmessage::new(false, false, s::R_ID, s::W_ID, 1, sn_f, c2);
    assert!(s::glue_heartbeat_proxy(&mut wp, &s::R_GUID, &hb2, &out), "C05: second HEARTBEAT accepted");
    assert!(s::staged_count() == 2 && out.n.get() == 2, "C05: one answer per HEARTBEAT");
    let (n0, _p0) = s::staged_meta(0);
    let (n1, _p1) = s::staged_meta(1);
    assert!(n0 == 3 && n1 == 3, "C05: both answers carry a NACK_FRAG");
    let f0 = s::staged_sub(0, 2);
    let f1 = s::staged_sub(1, 2);
    assert!(f0.id() == NACK_FRAG && f1.id() == NACK_FRAG && f0.sn(NF_SN) == sn_f && f1.sn(NF_SN) == sn_f, "C05: NACK_FRAG for the partially received sample");
    let k0 = f0.u32(NF_BITMAP + 4) as i32;
    let k1 = f1.u32(NF_BITMAP + 4) as i32;
    assert!(k0 > 0, "C05: first NACK_FRAG count is greater than the writer's initial last-received count 0");
    assert!(k1 > k0, "C05: NACK_FRAG count strictly increases from one NACK_FRAG to the next");
    kani::cover!(k1 > k0, "two NACK_FRAG rounds");
    core::mem::forget(wp);
    core::mem::forget(c);
}
