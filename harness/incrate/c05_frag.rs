// C05 — fragmented samples: fragment slicing, reassembly under reordering/duplication/interleaving,
// and the NACK_FRAG contract between the reader (producer) and the writer (consumer).
// See vlib/ptab/rtps_proto.py for the composition argument and what is outside the claim.
use alloc::sync::Arc;
use alloc::vec::Vec;

use super::support_rtps as s;
use crate::rtps::stateful_reader::RtpsStatefulReader;
use crate::rtps_messages::submessage_elements::FragmentNumberSet;
use crate::rtps_messages::submessages::data_frag::DataFragSubmessage;
use crate::rtps_messages::submessages::nack_frag::NackFragSubmessage;
use crate::rtps_messages::types::{DATA_FRAG, INFO_DST, INFO_TS};
use crate::rtps::stateful_writer::RtpsStatefulWriter;
use crate::transport::types::DurabilityKind;
use crate::transport::types::{CacheChange, ChangeKind, ReliabilityKind};

/// Payload of symbolic length 1..=7, every allocation of concrete size.
fn payload7(bytes: &[u8; 7], len: usize) -> Arc<[u8]> {
    match len {
        1 => Arc::from(&bytes[..1]),
        2 => Arc::from(&bytes[..2]),
        3 => Arc::from(&bytes[..3]),
        4 => Arc::from(&bytes[..4]),
        5 => Arc::from(&bytes[..5]),
        6 => Arc::from(&bytes[..6]),
        _ => Arc::from(&bytes[..7]),
    }
}

// @check props=C05 tier=quick
// @desc Fragment slicing kernel: for every payload length L in 1..=7, every fragment size f in 1..=3 and every fragment index k < ceil(L/f), CacheChange::as_data_frag_submessage(k) has fragment_starting_num == k+1 (RTPS 1-based), fragments_in_submessage == 1, fragment_size == f, data_size == L, the change's sequence number, and its payload is exactly bytes[k*f .. min((k+1)*f, L)] - so the fragments 0..ceil(L/f) tile the payload without gap or overlap.
// @bounds L in 1..=7, f in 1..=3 (covers k*f-1, k*f, k*f+1 for k <= 2), sequence number full i64, payload bytes symbolic; loop-free
// @enc rtps::cache_change::CacheChange::as_data_frag_submessage
#[kani::proof]
#[kani::unwind(2)]
fn c05_frag_slices() {
    let bytes: [u8; 7] = kani::any();
    let l: usize = kani::any();
    let f: usize = kani::any();
    kani::assume(l >= 1 && l <= 7 && f >= 1 && f <= 3);
    let sn: i64 = kani::any();
    let c = s::change(sn, payload7(&bytes, l));
    let nfrag = (l + f - 1) / f;
    let k: usize = kani::any();
    kani::assume(k < nfrag);
    let d = c.as_data_frag_submessage(s::R_ID, s::W_ID, f, k);
    assert!(d.fragment_starting_num() as usize == k + 1, "C05: fragment_starting_num is the 1-based fragment number");
    assert!(d.fragments_in_submessage() == 1, "C05: one fragment per DATA_FRAG");
    assert!(d.fragment_size() as usize == f, "C05: fragment_size field");
    assert!(d.data_size() as usize == l, "C05: data_size is the sample size");
    assert!(d.writer_sn() == sn, "C05: fragment carries the sample's sequence number");
    assert!(d.reader_id() == s::R_ID && d.writer_id() == s::W_ID, "C05: fragment names reader and writer");
    let start = k * f;
    let end = core::cmp::min((k + 1) * f, l);
    let p: &[u8] = d.serialized_payload().as_ref();
    assert!(p.len() == end - start, "C05: fragment length");
    assert!(p.len() >= 1 && p.len() <= f, "C05: fragment is non-empty and at most fragment_size long");
    assert!(p.len() == f || k + 1 == nfrag, "C05: only the last fragment may be short");
    assert!(p.len() < 1 || p[0] == bytes[start], "C05: fragment byte 0");
    assert!(p.len() < 2 || p[1] == bytes[start + 1], "C05: fragment byte 1");
    assert!(p.len() < 3 || p[2] == bytes[start + 2], "C05: fragment byte 2");
    assert!(k + 1 < nfrag || end == l, "C05: the last fragment ends at the end of the sample");
    kani::cover!(l == 7 && f == 3 && k == 2, "7 bytes in 3+3+1, last fragment");
    kani::cover!(l == 6 && f == 3 && k == 1, "exact multiple, last fragment full");
    kani::cover!(l == 5 && f == 3 && k == 1, "k*f-1: last fragment short by one");
    kani::cover!(f == 1 && k == 6, "fragment size 1, seventh fragment");
    core::mem::forget(d);
    core::mem::forget(c);
}

/// The fragments of a 5-byte sample at fragment size 2 (lengths 2,2,1) / of a 3-byte sample (2,1),
/// produced by the real writer-side fragmenter.
fn frags_5_2(sn: i64, bytes: &[u8; 5]) -> (CacheChange, [DataFragSubmessage; 3]) {
    let c = s::change(sn, Arc::from(&bytes[..]));
    let f0 = c.as_data_frag_submessage(s::R_ID, s::W_ID, 2, 0);
    let f1 = c.as_data_frag_submessage(s::R_ID, s::W_ID, 2, 1);
    let f2 = c.as_data_frag_submessage(s::R_ID, s::W_ID, 2, 2);
    (c, [f0, f1, f2])
}
fn frags_3_2(sn: i64, bytes: &[u8; 3]) -> (CacheChange, [DataFragSubmessage; 2]) {
    let c = s::change(sn, Arc::from(&bytes[..]));
    let f0 = c.as_data_frag_submessage(s::R_ID, s::W_ID, 2, 0);
    let f1 = c.as_data_frag_submessage(s::R_ID, s::W_ID, 2, 1);
    (c, [f0, f1])
}

/// One delivery step of a DATA_FRAG of a 2-fragment sample to a reader whose fragment buffer holds
/// at most one of the two fragments (plus optionally a fragment of another sample).
fn reassembly_step2(rel: ReliabilityKind) {
    let mut r = s::new_reader(rel);
    let first: i64 = kani::any();
    let highest: i64 = kani::any();
    kani::assume(first >= 1 && first <= 1000 && highest >= 0 && highest <= 1000);
    s::set_proxy_state(&mut r, first, 0, highest);
    let old_max = s::proxy(&mut r).available_changes_max();
    let sn = old_max + 1;
    let bytes: [u8; 3] = kani::any();
    let (c, fr) = frags_3_2(sn, &bytes);
    // which fragment is already buffered: 0 = none, 1 = fragment 1, 2 = fragment 2
    let held: u8 = kani::any();
    kani::assume(held <= 2);
    // fragment of another sample in the buffer: a later one (best-effort accepts sn >= expected),
    // or - reliable - a stale earlier one whose sample was meanwhile declared lost/irrelevant
    let other: bool = kani::any();
    let other_bytes: [u8; 3] = kani::any();
    let other_sn = if rel == ReliabilityKind::BestEffort { sn + 1 } else { sn - 1 };
    let (oc, ofr) = frags_3_2(other_sn, &other_bytes);
    if other {
        s::proxy(&mut r).push_data_frag(ofr[1].clone());
    }
    if held == 1 {
        s::proxy(&mut r).push_data_frag(fr[0].clone());
    } else if held == 2 {
        s::proxy(&mut r).push_data_frag(fr[1].clone());
    }
    r.changes_mut().reserve(1);

    let j: usize = kani::any();
    kani::assume(j < 2);
    r.on_data_frag_submessage(&fr[j], s::W_PREFIX, None);

    let complete = (held == 1 && j == 1) || (held == 2 && j == 0);
    let n = r.changes_mut().len();
    let new_max = s::proxy(&mut r).available_changes_max();
    if complete {
        assert!(n == 1, "C05: the sample is delivered exactly once, when its last missing fragment arrives");
        assert!(new_max == sn, "C05: the reassembled sample advances available_changes_max to its sequence number");
        let ch = &r.changes_mut()[0];
        assert!(ch.sequence_number == sn, "C05: reassembled sample keeps its sequence number");
        assert!(ch.writer_guid == s::W_GUID, "C05: reassembled sample is attributed to its writer");
        assert!(ch.kind == ChangeKind::Alive, "C05: reassembled sample kind");
        assert!(ch.data_value.len() == 3, "C05: reassembled length equals the written length");
        assert!(ch.data_value[0] == bytes[0] && ch.data_value[1] == bytes[1] && ch.data_value[2] == bytes[2], "C05: reassembled payload is byte-identical");
    } else {
        assert!(n == 0, "C05: nothing is delivered while a fragment is missing (duplicates do not count)");
        assert!(new_max == old_max, "C05: an incomplete sample does not move available_changes_max");
    }
    kani::cover!(complete && j == 0 && other, "first fragment arrives last (reordered), other sample interleaved");
    kani::cover!(complete && j == 1, "in-order completion");
    kani::cover!(!complete && held == 1 && j == 0, "duplicate fragment");
    kani::cover!(!complete && held == 0, "first fragment of a sample");
    core::mem::forget(r);
    core::mem::forget(c);
    core::mem::forget(fr);
    core::mem::forget(oc);
    core::mem::forget(ofr);
}

// NOT INDEXED (measured: symbolic execution 100-185 s, then CBMC runs out of 12 GB in propositional reduction; the
// symbolic-order variant does not finish symbolic execution in 500 s). Kept as the record of the reassembly obligation
// that could not be decided with this technique on this machine; see vlib/ptab/rtps_proto.py C05 "outside".
// @disabled-check props=C05 tier=thorough timeout=1800
// @desc Reassembly step, RELIABLE reader (real on_data_frag_submessage): the fragment buffer holds none or one of the 2 fragments of the next expected sample, optionally plus a stale fragment of the previous sequence number; one more DATA_FRAG j (symbolic, possibly a duplicate) is delivered: exactly one change is appended iff j was the last missing fragment, with the written 3 bytes, sequence number and writer; otherwise nothing is appended and available_changes_max does not move.
// @bounds sample of 3 bytes, fragment size 2 (2 fragments, last one short), fragments produced by the real CacheChange::as_data_frag_submessage; expected sequence number symbolic in 1..=1001; unwind 4 (3-fragment samples in any order: c05_reassembly_orders, c05_reassembly3_step_*)
// @assume reachable fragment-buffer states never hold all fragments of a sample (completion reassembles and removes them in the same call)
// @enc rtps::stateful_reader::RtpsStatefulReader::on_data_frag_submessage
// @enc rtps::writer_proxy::RtpsWriterProxy::push_data_frag
// @enc rtps::writer_proxy::RtpsWriterProxy::reconstruct_data_from_frag
// @enc rtps::stateful_reader::RtpsStatefulReader::on_data_submessage
#[kani::proof]
#[kani::unwind(4)]
fn c05_reassembly_step_reliable() {
    reassembly_step2(ReliabilityKind::Reliable);
}

// NOT INDEXED (measured: symbolic execution 100-185 s, then CBMC runs out of 12 GB in propositional reduction; the
// symbolic-order variant does not finish symbolic execution in 500 s). Kept as the record of the reassembly obligation
// that could not be decided with this technique on this machine; see vlib/ptab/rtps_proto.py C05 "outside".
// @disabled-check props=C05,C02 tier=thorough timeout=1800
// @desc Reassembly step, BEST_EFFORT reader: as c05_reassembly_step_reliable, with a fragment of the NEXT sample interleaved in the buffer.
// @bounds sample of 3 bytes, fragment size 2 (2 fragments), expected sequence number symbolic in 1..=1001; unwind 4
// @assume reachable fragment-buffer states never hold all fragments of a sample
// @enc rtps::stateful_reader::RtpsStatefulReader::on_data_frag_submessage
// @enc rtps::writer_proxy::RtpsWriterProxy::push_data_frag
// @enc rtps::writer_proxy::RtpsWriterProxy::reconstruct_data_from_frag
#[kani::proof]
#[kani::unwind(4)]
fn c05_reassembly_step_besteffort() {
    reassembly_step2(ReliabilityKind::BestEffort);
}

// NOT INDEXED (measured: symbolic execution 100-185 s, then CBMC runs out of 12 GB in propositional reduction; the
// symbolic-order variant does not finish symbolic execution in 500 s). Kept as the record of the reassembly obligation
// that could not be decided with this technique on this machine; see vlib/ptab/rtps_proto.py C05 "outside".
// @disabled-check props=C05 tier=thorough timeout=1800
// @desc Reassembly under every delivery order with duplicates (writer-proxy level, the two calls on_data_frag_submessage makes): 4 deliveries, each a symbolic choice among the 3 fragments of a 5-byte sample, interleaved with a fragment of another sample; after each delivery reconstruct_data_from_frag is called as the reader does: it returns a DATA submessage exactly at the first delivery after which all 3 fragments were seen, never before, and its payload is the written 5 bytes in order regardless of arrival order; afterwards no fragment of the sample stays buffered.
// @bounds 5-byte sample, fragment size 2 (fragments of 2,2,1 bytes), 4 deliveries (covers all 3! orders and one duplicate at any position), one foreign fragment; stand-alone RtpsWriterProxy; unwind 7
// @enc rtps::writer_proxy::RtpsWriterProxy::push_data_frag
// @enc rtps::writer_proxy::RtpsWriterProxy::reconstruct_data_from_frag
#[kani::proof]
#[kani::unwind(7)]
fn c05_reassembly_orders() {
    let mut wp = s::new_proxy(ReliabilityKind::Reliable);
    let sn: i64 = kani::any();
    kani::assume(sn >= 1 && sn <= 1000);
    let bytes: [u8; 5] = kani::any();
    let (c, fr) = frags_5_2(sn, &bytes);
    let other_bytes: [u8; 5] = kani::any();
    let (oc, ofr) = frags_5_2(sn + 1, &other_bytes);
    wp.push_data_frag(ofr[1].clone());
    let mut seen = [false; 3];
    let mut delivered = 0u8;
    let mut step = 0;
    while step < 4 {
        let j: usize = kani::any();
        kani::assume(j < 3);
        if delivered == 0 {
            wp.push_data_frag(fr[j].clone());
            seen[j] = true;
            let all = seen[0] && seen[1] && seen[2];
            match wp.reconstruct_data_from_frag(sn) {
                Some(d) => {
                    assert!(all, "C05: no reassembly before every fragment has arrived");
                    delivered += 1;
                    assert!(d.writer_sn() == sn, "C05: reassembled DATA carries the sample's sequence number");
                    let p: &[u8] = d.serialized_payload().as_ref();
                    assert!(p.len() == 5, "C05: reassembled length");
                    assert!(p[0] == bytes[0] && p[1] == bytes[1] && p[2] == bytes[2] && p[3] == bytes[3] && p[4] == bytes[4], "C05: reassembled payload is byte-identical and in fragment-number order");
                    core::mem::forget(d);
                }
                None => assert!(!all, "C05: the sample is reassembled as soon as its last missing fragment arrives"),
            }
        }
        step += 1;
    }
    if delivered == 1 {
        assert!(wp.reconstruct_data_from_frag(sn).is_none(), "C05: fragments of a reassembled sample are removed from the buffer");
    }
    kani::cover!(delivered == 1, "sample completed within 4 deliveries");
    kani::cover!(delivered == 0, "a fragment still missing after 4 deliveries (duplicates)");
    core::mem::forget(wp);
    core::mem::forget(c);
    core::mem::forget(fr);
    core::mem::forget(oc);
    core::mem::forget(ofr);
}

/// Writer with fragment size 2 holding one 3-byte change (sn 1: fragments 1,2 of 2,1 bytes) and a
/// matched reliable reader proxy; receives a NACK_FRAG naming the fragment numbers `m` (subset of
/// {1,2,3}; 3 is beyond the sample) with fragmentNumberState.base = `base` (RTPS 8.3.7.10: numbers
/// start at 1). Oracle (not more than the statement needs): every named number within 1..=total - the
/// base included, dust-dds always resends it - is resent as a DATA_FRAG with that
/// fragment_starting_num and the right bytes; nothing outside the named numbers or outside 1..=total
/// is sent; duplicates are allowed.
fn nackfrag_writer_step(m: [bool; 3], base: u32) -> (usize, i32) {
    let mut w = RtpsStatefulWriter::new(s::W_GUID, 2);
    w.add_matched_reader(s::reader_proxy(ReliabilityKind::Reliable, DurabilityKind::Volatile));
    let bytes: [u8; 3] = kani::any();
    w.changes_mut().push(s::change(1, Arc::from(&bytes[..])));
    let mut set = Vec::with_capacity(3);
    if m[0] {
        set.push(1u32);
    }
    if m[1] {
        set.push(2u32);
    }
    if m[2] {
        set.push(3u32);
    }
    let count: i32 = kani::any();
    let nf = NackFragSubmessage::new(s::R_ID, s::W_ID, 1, FragmentNumberSet::new(base, set), count);
    let out = s::Sent::new();
    w.on_nack_frag_submessage_received(&nf, s::R_PREFIX, &out);

    let n = s::staged_count();
    assert!(out.n.get() == n, "C05: every datagram built is handed to the transport");
    if count <= 0 {
        assert!(n == 0, "C05: a NACK_FRAG whose count is not greater than the last one seen (initially 0) is ignored");
    }
    let mut resent = [false; 2];
    let mut i = 0;
    while i < n {
        let (nsub, prefix) = s::staged_meta(i);
        assert!(prefix == s::W_PREFIX, "C05: resent fragment comes from the writer's participant");
        // INFO_DST(reader prefix) | INFO_TS | DATA_FRAG
        assert!(nsub == 3, "C05: INFO_DST + INFO_TS + DATA_FRAG");
        let dst = s::staged_sub(i, 0);
        assert!(dst.id() == INFO_DST && dst.at(4) == s::R_PREFIX[0] && dst.at(15) == s::R_PREFIX[11], "C05: INFO_DST names the reader's participant");
        assert!(s::staged_sub(i, 1).id() == INFO_TS, "C05: INFO_TS second");
        let df = s::staged_sub(i, 2);
        assert!(df.id() == DATA_FRAG, "C05: the answer to a NACK_FRAG is a DATA_FRAG");
        assert!(df.octets() == df.len(), "C05: octetsToNextHeader is the element length");
        assert!(df.sn(s::OFF_SN) == 1, "C05: resent fragment belongs to the requested sample");
        assert!(df.u16(s::OFF_FRAG_SIZE) == 2 && df.u32(s::OFF_SAMPLE_SIZE) == 3 && df.u16(s::OFF_FRAGS_IN_SUB) == 1, "C05: resent fragment geometry");
        let k = df.u32(s::OFF_FRAG_NUM);
        assert!(k >= 1 && k <= 2, "C05: resent fragment number is within 1..=total");
        let pay = s::OFF_FRAG_QOS + s::LEN_EMPTY_QOS;
        let plen = df.len() + 4 - pay;
        let start = ((k - 1) * 2) as usize;
        assert!(plen == if k == 2 { 1 } else { 2 }, "C05: resent fragment length");
        assert!(df.at(pay) == bytes[start] && (plen < 2 || df.at(pay + 1) == bytes[start + 1]), "C05: resent fragment carries the bytes of its own fragment number");
        resent[(k - 1) as usize] = true;
        i += 1;
    }
    if count > 0 {
        let named1 = m[0] || base == 1;
        let named2 = m[1] || base == 2;
        assert!(resent[0] == named1 && resent[1] == named2,
            "C05: the fragments resent for a NACK_FRAG are exactly the fragment numbers it names (1-based on both sides) that exist");
    }
    core::mem::forget(w);
    core::mem::forget(nf);
    (n, count)
}

// @check props=C05 tier=quick
// @desc NACK_FRAG numbering contract, writer side, the instance of the defect repaired by fix 6b815dc: a writer holding a 2-fragment sample receives a NACK_FRAG naming the missing fragment number set {1} (1-based, RTPS 8.3.7.10; count symbolic): if the count is fresh the DATA_FRAGs it emits (fields read at their RTPS 9.4.5.4 wire offsets) carry fragment_starting_num 1 and the first two payload bytes - and nothing else; a stale count emits nothing.
// @bounds one 3-byte change, fragment size 2 (2 fragments); requested set {1}; count full i32; unwind 5
// @assume datagram container stubbed by support_rtps::from_submessages_staged (real submessage encoders, fixed-capacity staging buffer instead of Cursor<Vec<u8>>); critical-section stubs (support_cs)
// @enc rtps::stateful_writer::RtpsStatefulWriter::on_nack_frag_submessage_received
// @enc rtps::cache_change::CacheChange::as_data_frag_submessage
// @enc rtps_messages::submessages::data_frag::DataFragSubmessage::write_submessage_elements_into_bytes
#[kani::proof]
#[kani::unwind(5)]
#[kani::stub(crate::rtps_messages::overall_structure::RtpsMessageWrite::from_submessages, super::support_rtps::from_submessages_staged)]
#[kani::stub(critical_section::acquire, super::support_cs::cs_acquire)]
#[kani::stub(critical_section::release, super::support_cs::cs_release)]
fn c05_nackfrag_writer_resend_first() {
    let (n, count) = nackfrag_writer_step([true, false, false], 1);
    kani::cover!(count > 0 && n >= 1, "fragment 1 resent");
    kani::cover!(count <= 0, "stale NACK_FRAG");
}

// @check props=C05 tier=quick
// @desc NACK_FRAG handling, writer side, every request: a NACK_FRAG whose count is not greater than the last one seen is ignored (nothing emitted); for a fresh one naming any non-empty subset M of {1,2,3} of a 2-fragment sample (3 does not exist), with base = min(M) or base = 1, every emitted datagram is INFO_DST+INFO_TS+DATA_FRAG of the requested sample with correct geometry (fragment_size, data_size) and exactly the payload bytes of its own fragment number, and the set of fragment numbers resent is exactly (M + base) within 1..=2 - duplicates allowed; every datagram built is handed to the transport.
// @bounds one 3-byte change, fragment size 2 (2 fragments); requested set any non-empty subset of {1,2,3}, base in {1, min}; count full i32; unwind 5
// @assume datagram container stubbed by support_rtps::from_submessages_staged; critical-section stubs (support_cs)
// @enc rtps::stateful_writer::RtpsStatefulWriter::on_nack_frag_submessage_received
// @enc rtps::cache_change::CacheChange::as_data_frag_submessage
// @enc rtps_messages::submessages::data_frag::DataFragSubmessage::write_submessage_elements_into_bytes
#[kani::proof]
#[kani::unwind(5)]
#[kani::stub(crate::rtps_messages::overall_structure::RtpsMessageWrite::from_submessages, super::support_rtps::from_submessages_staged)]
#[kani::stub(critical_section::acquire, super::support_cs::cs_acquire)]
#[kani::stub(critical_section::release, super::support_cs::cs_release)]
fn c05_nackfrag_writer_resend() {
    let m: [bool; 3] = kani::any();
    kani::assume(m[0] || m[1] || m[2]);
    let min: u32 = if m[0] { 1 } else if m[1] { 2 } else { 3 };
    let base: u32 = if kani::any() { 1 } else { min };
    let (n, count) = nackfrag_writer_step(m, base);
    kani::cover!(count > 0 && m[0] && !m[1] && !m[2], "NACK_FRAG asking for fragment 1 only");
    kani::cover!(count > 0 && !m[0] && m[1] && !m[2] && base == 2, "NACK_FRAG asking for the last fragment only");
    kani::cover!(count > 0 && !m[0] && !m[1] && m[2] && base == 3, "NACK_FRAG asking only for a fragment beyond the sample: nothing resent");
    kani::cover!(count > 0 && n >= 3, "base resent twice plus another fragment");
    kani::cover!(count <= 0, "stale NACK_FRAG");
}
