// C13 (reduced) — discovery parameter-list FRAMING only.
// The value encoding of every announcement goes through DynamicData / the XTypes serializer and is
// out of reach (DESIGN.md §2, P-i).  What is decided here is the framing layer that carries those
// values: the real encoder
//     ParameterListSerializer::{new, write_header, write_cdr_parameter(pid, &[u8]), write_sentinel}
// (write_xcdr1_parameter / write_xcdr2_parameter end in exactly this write_cdr_parameter(pid, &[u8])
// call) against the real decoder
//     ParameterList::{new, get_optional_parameter, get_non_optional_parameter} -> seek_to_pid -> PidIterator.
// The value bytes of a parameter are observed through the crate's own `CdrDeserialize` trait with a
// harness type that reads octets until the parameter is exhausted (uses only Octet::cdr_deserialize).
// Reference: RTPS 2.4 §9.4.2.11 (ParameterList: {parameterId i16, length u16 multiple of 4, value},
// terminated by PID_SENTINEL) and §10.2 (encapsulation header PL_CDR_LE = 00 03 00 00).
use crate::dcps::data_representation_builtin_endpoints::rtps_data_representation::{
    CdrDeserialize, CdrDeserializer, CdrError, CdrResult, ParameterList,
};
use crate::dcps::data_representation_builtin_endpoints::rtps_data_representation_serialization::ParameterListSerializer;
use crate::infrastructure::time::Duration;
use crate::transport::types::Octet;
use alloc::vec::Vec;

const MAXV: usize = 8; // longest value written by the bounded harnesses
const CAP: usize = 12; // observation window of `Raw`

/// All octets of one parameter value (at most CAP), as handed to a decoder by seek_to_pid.
struct Raw {
    len: usize,
    bytes: [u8; CAP],
    more: bool,
}
impl CdrDeserialize for Raw {
    fn cdr_deserialize<'a>(de: &mut CdrDeserializer<'a>) -> CdrResult<Self> {
        let mut r = Raw { len: 0, bytes: [0; CAP], more: false };
        let mut i = 0;
        let mut open = true;
        while i < CAP {
            if open {
                match Octet::cdr_deserialize(de) {
                    Ok(b) => {
                        r.bytes[i] = b;
                        r.len += 1;
                    }
                    Err(_) => open = false,
                }
            }
            i += 1;
        }
        if open {
            r.more = Octet::cdr_deserialize(de).is_ok();
        }
        Ok(r)
    }
}
const ABSENT: usize = 99;
fn absent() -> Raw {
    Raw { len: ABSENT, bytes: [0; CAP], more: false }
}
fn pad4(n: usize) -> usize {
    (n + 3) / 4 * 4
}
/// The 16-bit value the encapsulation header 00 03 00 00 aliases to when it is (wrongly) parsed as a parameter id.
const HEADER_ALIAS_LE: i16 = 0x0300;
const PID_SENTINEL: i16 = 1;

struct Param {
    pid: i16,
    len: usize,
    val: [u8; MAXV],
}
fn any_param() -> Param {
    let p = Param { pid: kani::any(), len: kani::any(), val: kani::any() };
    kani::assume(p.len <= MAXV);
    kani::assume(p.pid != PID_SENTINEL); // a parameter with id 1 IS the sentinel
    p
}

// @check props=C13 tier=quick
// @desc framing round trip: a list of 0..=3 parameters with ANY parameter ids (standard, unknown, vendor-specific >= 0x8000) and raw values of 0..=8 bytes written by the real ParameterListSerializer is exactly {header 00 03 00 00, per parameter (id LE, length LE = value length rounded up to 4, value, zero padding), sentinel 01 00 00 00}; looking up ANY id q with the real ParameterList returns exactly the bytes (plus zero padding) of the FIRST parameter with that id - parameters with other ids before and after it are skipped - and the caller's default if no parameter has that id; get_non_optional_parameter reports PidNotFound(q) in that case
// @bounds 0..=3 parameters; ids any i16 except 1 (the sentinel); value lengths 0..=8, value bytes symbolic; looked-up id any i16 except 1 and except 0x0300 (the encapsulation header read as a parameter id: never written or looked up by dust-dds; the big-endian counterpart is KF-C13-2). unwind 14 (12-octet observation window + 2)
// @assume buffer created with capacity 64 (no reallocation while writing; the real callers pass Vec::new()); q != 0x0300; value lengths <= 8 (the negation of trigger KF-C13-1 is only covered up to this bound)
// @enc dcps::data_representation_builtin_endpoints::rtps_data_representation_serialization::ParameterListSerializer::write_header
// @enc dcps::data_representation_builtin_endpoints::rtps_data_representation_serialization::ParameterListSerializer::write_cdr_parameter
// @enc dcps::data_representation_builtin_endpoints::rtps_data_representation_serialization::ParameterListSerializer::write_sentinel
// @enc dcps::data_representation_builtin_endpoints::rtps_data_representation::ParameterList::get_optional_parameter
// @enc dcps::data_representation_builtin_endpoints::rtps_data_representation::ParameterList::get_non_optional_parameter
// @enc dcps::data_representation_builtin_endpoints::rtps_data_representation::PidIterator::next
#[kani::proof]
#[kani::unwind(14)]
fn c13_framing_roundtrip__rest() {
    roundtrip(2);
}

fn roundtrip(max_n: usize) {
    let n: usize = kani::any();
    kani::assume(n <= max_n);
    let ps = [any_param(), any_param(), any_param()];
    let mut buf: Vec<u8> = Vec::with_capacity(64);
    {
        let mut ser = ParameterListSerializer::new(&mut buf);
        ser.write_header();
        if n >= 1 {
            ser.write_cdr_parameter(ps[0].pid, &ps[0].val[..ps[0].len]);
        }
        if n >= 2 {
            ser.write_cdr_parameter(ps[1].pid, &ps[1].val[..ps[1].len]);
        }
        if n >= 3 {
            ser.write_cdr_parameter(ps[2].pid, &ps[2].val[..ps[2].len]);
        }
        ser.write_sentinel();
    }
    // ---- layout of the produced bytes (RTPS 9.4.2.11) ----
    let mut expect_len = 4;
    let mut i = 0;
    while i < 3 {
        if i < n {
            expect_len += 4 + pad4(ps[i].len);
        }
        i += 1;
    }
    expect_len += 4;
    assert!(buf.len() == expect_len, "C13: total length = header + sum(4 + padded value) + sentinel");
    assert!(buf[0] == 0 && buf[1] == 3 && buf[2] == 0 && buf[3] == 0, "C13: encapsulation header is PL_CDR_LE");
    let e = buf.len();
    assert!(buf[e - 4] == 1 && buf[e - 3] == 0 && buf[e - 2] == 0 && buf[e - 1] == 0, "C13: list ends with PID_SENTINEL, length 0");
    if n >= 1 {
        assert!(i16::from_le_bytes([buf[4], buf[5]]) == ps[0].pid, "C13: first parameter id written little-endian");
        assert!(u16::from_le_bytes([buf[6], buf[7]]) as usize == pad4(ps[0].len), "C13: length field = value length rounded up to 4");
    }

    // ---- decoder ----
    let q: i16 = kani::any();
    kani::assume(q != PID_SENTINEL && q != HEADER_ALIAS_LE);
    let pl = match ParameterList::new(buf.as_slice()) {
        Ok(pl) => pl,
        Err(_) => {
            kani::assert(false, "C13: a written list is accepted by ParameterList::new");
            return;
        }
    };
    let first = if n >= 1 && ps[0].pid == q {
        Some(0)
    } else if n >= 2 && ps[1].pid == q {
        Some(1)
    } else if n >= 3 && ps[2].pid == q {
        Some(2)
    } else {
        None
    };
    let got = pl.get_optional_parameter::<Raw>(q, absent());
    let got2 = pl.get_non_optional_parameter::<Raw>(q);
    match (&got, first) {
        (Ok(raw), Some(k)) => {
            let l = ps[k].len;
            assert!(raw.len == pad4(l) && !raw.more, "C13: lookup returns exactly the padded value of the first parameter with that id");
            let mut j = 0;
            while j < MAXV {
                if j < l {
                    assert!(raw.bytes[j] == ps[k].val[j], "C13: lookup returns the bytes that were written");
                } else if j < pad4(l) {
                    assert!(raw.bytes[j] == 0, "C13: padding bytes are zero");
                }
                j += 1;
            }
            assert!(got2.is_ok(), "C13: get_non_optional_parameter finds a present parameter");
        }
        (Ok(raw), None) => {
            assert!(raw.len == ABSENT, "C13: lookup of an id that was not written returns the caller's default");
            assert!(matches!(got2, Err(CdrError::PidNotFound(x)) if x == q), "C13: get_non_optional_parameter reports PidNotFound for an id that was not written");
        }
        (Err(_), _) => kani::assert(false, "C13: lookup in a written list does not fail"),
    }
    if max_n >= 3 {
        kani::cover!(first == Some(2) && n == 3 && ps[0].len == 5 && ps[1].len == 0, "third parameter found behind a padded and an empty one");
        kani::cover!(first == Some(0) && n == 3 && ps[1].pid == q && ps[2].pid == q, "three parameters with the same id: the first wins");
        kani::cover!(first == Some(1) && ps[0].pid < 0 && ps[2].pid < 0 && n == 3, "found between two vendor-specific (negative i16) ids");
        kani::cover!(first.is_none() && n == 3, "id absent from a list of three");
    }
    kani::cover!(first == Some(1) && n == 2 && ps[0].len == 5 && ps[0].pid < 0, "second parameter found behind a padded vendor-specific one");
    kani::cover!(first == Some(0) && n == 2 && ps[1].pid == q, "two parameters with the same id: the first wins");
    kani::cover!(first.is_none() && n == 2, "id absent from a list of two");
    kani::cover!(first.is_none() && n == 0, "empty list (header + sentinel)");
    kani::cover!(first == Some(0) && ps[0].len == 8, "longest value");
    kani::cover!(first == Some(0) && ps[0].len == 3 && ps[0].val[2] != 0, "one padding byte");
    kani::cover!(first == Some(1) && ps[0].pid == 0, "PID_PAD (0) before the parameter is skipped like any other id");
    core::mem::forget(buf);
}

// @check props=C13 tier=quick known=KF-C13-1
// @desc KF-C13-1: a value of 65536 bytes (e.g. user/topic/group data "larger than 65 535 bytes", named by the property) written by write_cdr_parameter must be found again by the decoder with its bytes intact, or be refused - expected to FAIL: `(len) as u16` silently stores length 0 in the 16-bit length field, the decoder sees an empty parameter and then parses the value bytes as further parameters
// @bounds one parameter, id symbolic (not 1, not 0x0300), value = 65536 bytes (first four symbolic, rest zero), followed by a second 4-byte parameter and the sentinel. unwind 14
// @assume trigger KF-C13-1: padded value length >= 65536 (here exactly 65536)
// @enc dcps::data_representation_builtin_endpoints::rtps_data_representation_serialization::ParameterListSerializer::write_cdr_parameter
// @enc dcps::data_representation_builtin_endpoints::rtps_data_representation::ParameterList::get_optional_parameter
#[kani::proof]
#[kani::unwind(14)]
fn c13_length_field_truncation__known() {
    let pid: i16 = kani::any();
    let pid2: i16 = kani::any();
    kani::assume(pid != PID_SENTINEL && pid != HEADER_ALIAS_LE && pid2 != PID_SENTINEL && pid2 != HEADER_ALIAS_LE && pid2 != pid);
    let head: [u8; 4] = kani::any();
    let tail: [u8; 4] = kani::any();
    let mut value: Vec<u8> = alloc::vec![0u8; 65536];
    value[0] = head[0];
    value[1] = head[1];
    value[2] = head[2];
    value[3] = head[3];
    let mut buf: Vec<u8> = Vec::with_capacity(65536 + 64);
    {
        let mut ser = ParameterListSerializer::new(&mut buf);
        ser.write_header();
        ser.write_cdr_parameter(pid, value.as_slice());
        ser.write_cdr_parameter(pid2, &tail[..]);
        ser.write_sentinel();
    }
    kani::cover!(buf.len() == 4 + 4 + 65536 + 8 + 4, "all 65536 value bytes were written");
    let len_field = u16::from_le_bytes([buf[6], buf[7]]) as usize;
    assert!(len_field == 65536, "C13: the length field of a written parameter equals its (padded) value length");
    let pl = match ParameterList::new(buf.as_slice()) {
        Ok(pl) => pl,
        Err(_) => return,
    };
    let got = pl.get_optional_parameter::<Raw>(pid, absent());
    assert!(matches!(&got, Ok(r) if r.len == CAP && r.more && r.bytes[0] == head[0] && r.bytes[3] == head[3]), "C13: a parameter of 65536 bytes is found with its bytes intact");
    let got2 = pl.get_optional_parameter::<Raw>(pid2, absent());
    assert!(matches!(&got2, Ok(r) if r.len == 4 && r.bytes[0] == tail[0] && r.bytes[3] == tail[3]), "C13: the parameter after a 65536-byte parameter is still found");
    core::mem::forget((buf, value));
}

// @check props=C13 tier=quick known=KF-C13-2
// @desc KF-C13-2: a big-endian parameter list (PL_CDR_BE, header 00 02 00 00 - what other vendors' big-endian participants send) holding PID_PARTICIPANT_LEASE_DURATION (0x0002) with a symbolic duration must decode to that duration - expected to FAIL: PidIterator starts at offset 0 and parses the 4-byte encapsulation header itself as a parameter (id 0x0002, length 0), so the lookup of id 2 returns the empty pseudo-parameter and the Duration decoder fails with NotEnoughData (SpdpDiscoveredParticipantData::from_bytes therefore rejects every big-endian participant announcement)
// @bounds bytes built by hand per RTPS 9.4.2.11: header 00 02 00 00, (id 0x0002 BE, length 8 BE, sec BE, nanosec BE), sentinel; sec and nanosec symbolic. unwind 14
// @assume trigger KF-C13-2: the looked-up id equals the encapsulation identifier read as a 16-bit id (0x0002 for PL_CDR_BE; 0x0300 for PL_CDR_LE, which no PID uses)
// @enc dcps::data_representation_builtin_endpoints::rtps_data_representation::ParameterList::get_optional_parameter
// @enc dcps::data_representation_builtin_endpoints::rtps_data_representation::PidIterator::next
#[kani::proof]
#[kani::unwind(14)]
fn c13_big_endian_header_alias__known() {
    let sec: i32 = kani::any();
    let nanosec: u32 = kani::any();
    kani::assume(nanosec < 1_000_000_000);
    let s = sec.to_be_bytes();
    let ns = nanosec.to_be_bytes();
    let bytes: [u8; 20] = [
        0x00, 0x02, 0x00, 0x00, // PL_CDR_BE
        0x00, 0x02, 0x00, 0x08, // PID_PARTICIPANT_LEASE_DURATION, length 8
        s[0], s[1], s[2], s[3], ns[0], ns[1], ns[2], ns[3], //
        0x00, 0x01, 0x00, 0x00, // PID_SENTINEL
    ];
    let pl = match ParameterList::new(&bytes[..]) {
        Ok(pl) => pl,
        Err(_) => return,
    };
    let got = pl.get_optional_parameter::<Duration>(2, Duration::new(100, 0));
    kani::cover!(sec == 30, "a 30 s lease duration");
    assert!(matches!(&got, Ok(d) if d.sec == sec && d.nanosec == nanosec), "C13: the participant lease duration of a big-endian parameter list is decoded");
}

// @check props=C13 tier=quick
// @desc sibling of KF-C13-2 (negation of the trigger): in a big-endian list every id other than the header alias 0x0002 is looked up correctly - the parameter written after the header is found with its big-endian value, an id that is absent yields the default
// @bounds bytes built by hand: header 00 02 00 00, one parameter (id symbolic BE != 1, != 2; length 8; two symbolic 32-bit words BE), sentinel; looked-up id symbolic != 1, != 2. unwind 14
// @assume NOT trigger KF-C13-2: written and looked-up ids differ from 0x0002
// @enc dcps::data_representation_builtin_endpoints::rtps_data_representation::ParameterList::get_optional_parameter
// @enc dcps::data_representation_builtin_endpoints::rtps_data_representation::PidIterator::next
#[kani::proof]
#[kani::unwind(14)]
fn c13_big_endian_lookup__rest() {
    let pid: i16 = kani::any();
    let q: i16 = kani::any();
    kani::assume(pid != 1 && pid != 2 && q != 1 && q != 2);
    let sec: i32 = kani::any();
    let nanosec: u32 = kani::any();
    let p = pid.to_be_bytes();
    let s = sec.to_be_bytes();
    let ns = nanosec.to_be_bytes();
    let bytes: [u8; 20] = [
        0x00, 0x02, 0x00, 0x00, p[0], p[1], 0x00, 0x08, s[0], s[1], s[2], s[3], ns[0], ns[1], ns[2], ns[3], 0x00, 0x01, 0x00, 0x00,
    ];
    let pl = match ParameterList::new(&bytes[..]) {
        Ok(pl) => pl,
        Err(_) => {
            kani::assert(false, "C13: a well-formed big-endian list is accepted");
            return;
        }
    };
    let got = pl.get_optional_parameter::<Duration>(q, Duration { sec: 7, nanosec: 7 });
    if q == pid {
        assert!(matches!(&got, Ok(d) if d.sec == sec && d.nanosec == nanosec), "C13: big-endian parameter value decoded");
    } else {
        assert!(matches!(&got, Ok(d) if d.sec == 7 && d.nanosec == 7), "C13: absent id yields the default (big-endian list)");
    }
    kani::cover!(q == pid && pid < 0, "vendor-specific id found in a big-endian list");
    kani::cover!(q != pid, "absent id in a big-endian list");
}
