// C13 (reduced) — discovery parameter-list FRAMING only.
// The value encoding of every announcement goes through DynamicData / the XTypes serializer and is
// out of reach (DESIGN.md §2, P-i).  What is decided here is the framing layer that carries those
// values: the real encoder
//     ParameterListSerializer::{new, write_header, write_cdr_parameter(pid, &[u8]), write_sentinel}
// (write_xcdr1_parameter / write_xcdr2_parameter end in exactly this write_cdr_parameter(pid, &[u8])
// call) against the real decoder
//     ParameterList::{new, get_optional_parameter, get_non_optional_parameter} -> seek_to_pid -> PidIterator.
// The value bytes of a parameter are observed through the crate's own `CdrDeserialize` trait with a
// harness type that reads octets until the parameter is exhausted (uses only Octet::cdr_deserialize).
// Reference: RTPS 2.4 §9.4.2.11 (ParameterList: {parameterId i16, length u16 multiple of 4, value},
// terminated by PID_SENTINEL) and §10.2 (encapsulation header PL_CDR_LE = 00 03 00 00).
use crate::dcps::data_representation_builtin_endpoints::rtps_data_representation::{
    CdrDeserialize, CdrDeserializer, CdrError, CdrResult, ParameterList,
};
use crate::dcps::data_representation_builtin_endpoints::rtps_data_representation_serialization::ParameterListSerializer;
use crate::infrastructure::time::Duration;
use crate::transport::types::Octet;
use alloc::vec::Vec;

const MAXV: usize = 8; // longest value written by the bounded harnesses
const CAP: usize = 9; // observation window of `Raw`: one more than the longest padded value

/// All octets of one parameter value (at most CAP), as handed to a decoder by seek_to_pid.
/// Written without a loop so that the harness unwinding bound only has to cover the decoder's own
/// parameter loop (every extra unwinding of that loop costs ~40 k symbolic-execution steps).
struct Raw {
    len: usize,
    bytes: [u8; CAP],
}
fn take(de: &mut CdrDeserializer<'_>, r: &mut Raw, i: usize) {
    if r.len == i {
        if let Ok(b) = Octet::cdr_deserialize(de) {
            r.bytes[i] = b;
            r.len = i + 1;
        }
    }
}
impl CdrDeserialize for Raw {
    fn cdr_deserialize<'a>(de: &mut CdrDeserializer<'a>) -> CdrResult<Self> {
        let mut r = Raw { len: 0, bytes: [0; CAP] };
        take(de, &mut r, 0);
        take(de, &mut r, 1);
        take(de, &mut r, 2);
        take(de, &mut r, 3);
        take(de, &mut r, 4);
        take(de, &mut r, 5);
        take(de, &mut r, 6);
        take(de, &mut r, 7);
        take(de, &mut r, 8);
        Ok(r)
    }
}
const ABSENT: usize = 99;
fn absent() -> Raw {
    Raw { len: ABSENT, bytes: [0; CAP] }
}
/// byte j of a written value / its padding, compared without a loop
fn byte_ok(got: u8, p: &Param, j: usize) -> bool {
    if j < p.len {
        got == p.val[j]
    } else if j < pad4(p.len) {
        got == 0
    } else {
        true
    }
}
fn pad4(n: usize) -> usize {
    (n + 3) / 4 * 4
}
/// The 16-bit value the encapsulation header 00 03 00 00 reads as if it were (wrongly) parsed as a
/// parameter id - the decoder did that before fix d2848ed (KF-C13-2); used as a cover witness only.
const HEADER_ALIAS_LE: i16 = 0x0300;
const PID_SENTINEL: i16 = 1;

struct Param {
    pid: i16,
    len: usize,
    val: [u8; MAXV],
}
/// A parameter with symbolic id and bytes and the given CONCRETE value length.  (Symbolic lengths make
/// the vector length symbolic, CBMC then keeps every grow/realloc path of the later writes: 1.4 M
/// steps and > 10 GB for two parameters, measured.)
fn param_of_len(len: usize) -> Param {
    let p = Param { pid: kani::any(), len, val: kani::any() };
    kani::assume(p.pid != PID_SENTINEL); // a parameter with id 1 IS the sentinel
    p
}

/// Writes `n` (<= 3) parameters with the real serializer and checks the COMPLETE produced layout
/// (RTPS 9.4.2.11): header, per parameter id / length / value / zero padding, sentinel.
fn encode(ps: &[Param; 3], n: usize) -> Vec<u8> {
    // capacity reserved up front: no reallocation while writing (the real callers start from Vec::new();
    // the capacity of the vector is not observable by the serializer)
    let mut buf: Vec<u8> = Vec::with_capacity(64);
    {
        let mut ser = ParameterListSerializer::new(&mut buf);
        ser.write_header();
        if n >= 1 {
            ser.write_cdr_parameter(ps[0].pid, &ps[0].val[..ps[0].len]);
        }
        if n >= 2 {
            ser.write_cdr_parameter(ps[1].pid, &ps[1].val[..ps[1].len]);
        }
        if n >= 3 {
            ser.write_cdr_parameter(ps[2].pid, &ps[2].val[..ps[2].len]);
        }
        ser.write_sentinel();
    }
    let mut expect_len = 4;
    let mut off = [0usize; 3];
    let mut i = 0;
    while i < 3 {
        if i < n {
            off[i] = expect_len;
            expect_len += 4 + pad4(ps[i].len);
        }
        i += 1;
    }
    expect_len += 4;
    assert!(buf.len() == expect_len, "C13: total length = header + sum(4 + padded value) + sentinel");
    assert!(buf[0] == 0 && buf[1] == 3 && buf[2] == 0 && buf[3] == 0, "C13: encapsulation header is PL_CDR_LE");
    let e = buf.len();
    assert!(buf[e - 4] == 1 && buf[e - 3] == 0 && buf[e - 2] == 0 && buf[e - 1] == 0, "C13: list ends with PID_SENTINEL, length 0");
    let mut i = 0;
    while i < 3 {
        if i < n {
            let o = off[i];
            assert!(i16::from_le_bytes([buf[o], buf[o + 1]]) == ps[i].pid, "C13: parameter id written little-endian");
            assert!(u16::from_le_bytes([buf[o + 2], buf[o + 3]]) as usize == pad4(ps[i].len), "C13: length field = value length rounded up to 4");
            let pl = pad4(ps[i].len);
            let v = |j: usize| if j < pl { buf[o + 4 + j] } else { 0 };
            assert!(
                byte_ok(v(0), &ps[i], 0) && byte_ok(v(1), &ps[i], 1) && byte_ok(v(2), &ps[i], 2) && byte_ok(v(3), &ps[i], 3)
                    && byte_ok(v(4), &ps[i], 4) && byte_ok(v(5), &ps[i], 5) && byte_ok(v(6), &ps[i], 6) && byte_ok(v(7), &ps[i], 7),
                "C13: value bytes written in order, padding bytes zero"
            );
        }
        i += 1;
    }
    buf
}

/// Looks up a symbolic id in `buf` with the real decoder and compares with the first parameter of
/// that id.  Returns (index of the first parameter with the looked-up id, q).
fn lookup(buf: &Vec<u8>, ps: &[Param; 3], n: usize, also_non_optional: bool) -> (Option<usize>, i16) {
    let q: i16 = kani::any();
    kani::assume(q != PID_SENTINEL);
    let pl = match ParameterList::new(buf.as_slice()) {
        Ok(pl) => pl,
        Err(_) => {
            kani::assert(false, "C13: a written list is accepted by ParameterList::new");
            return (None, q);
        }
    };
    let first = if n >= 1 && ps[0].pid == q {
        Some(0)
    } else if n >= 2 && ps[1].pid == q {
        Some(1)
    } else if n >= 3 && ps[2].pid == q {
        Some(2)
    } else {
        None
    };
    let got = pl.get_optional_parameter::<Raw>(q, absent());
    match (&got, first) {
        (Ok(raw), Some(k)) => {
            let l = ps[k].len;
            assert!(raw.len == pad4(l), "C13: lookup returns exactly the padded value of the first parameter with that id");
            let b = &raw.bytes;
            assert!(
                byte_ok(b[0], &ps[k], 0) && byte_ok(b[1], &ps[k], 1) && byte_ok(b[2], &ps[k], 2) && byte_ok(b[3], &ps[k], 3)
                    && byte_ok(b[4], &ps[k], 4) && byte_ok(b[5], &ps[k], 5) && byte_ok(b[6], &ps[k], 6) && byte_ok(b[7], &ps[k], 7),
                "C13: lookup returns the bytes that were written, padding bytes zero"
            );
        }
        (Ok(raw), None) => {
            assert!(raw.len == ABSENT, "C13: lookup of an id that was not written returns the caller's default");
        }
        (Err(_), _) => kani::assert(false, "C13: lookup in a written list does not fail"),
    }
    if also_non_optional {
        let got2 = pl.get_non_optional_parameter::<Raw>(q);
        match first {
            Some(_) => assert!(got2.is_ok(), "C13: get_non_optional_parameter finds a present parameter"),
            None => assert!(matches!(got2, Err(CdrError::PidNotFound(x)) if x == q), "C13: get_non_optional_parameter reports PidNotFound for an id that was not written"),
        }
    }
    (first, q)
}

// @check props=C13 tier=quick
// @desc encoder layout: one parameter of every length 0..=8 and a list of three parameters (lengths 6, 4, 1) written by the real ParameterListSerializer are exactly {header 00 03 00 00, per parameter: id LE, length LE = value length rounded up to 4, value bytes in order, zero padding to a multiple of 4; sentinel 01 00 00 00}
// @bounds value length each of 0..=8 (nine single-parameter cases) and the triple (6,4,1), lengths concrete per case; ids any i16 except 1; value bytes symbolic. unwind 11 (nine single-parameter cases + 2)
// @assume value lengths <= 8 (longer values, in particular > 65532 bytes where the 16-bit length field wraps, are outside: see the property table)
// @enc dcps::data_representation_builtin_endpoints::rtps_data_representation_serialization::ParameterListSerializer::write_header
// @enc dcps::data_representation_builtin_endpoints::rtps_data_representation_serialization::ParameterListSerializer::write_cdr_parameter
// @enc dcps::data_representation_builtin_endpoints::rtps_data_representation_serialization::ParameterListSerializer::write_sentinel
#[kani::proof]
#[kani::unwind(11)]
fn c13_encoder_layout() {
    let mut l = 0;
    while l <= MAXV {
        let ps = [param_of_len(l), param_of_len(0), param_of_len(0)];
        let buf = encode(&ps, 1);
        if l == 3 {
            kani::cover!(buf.len() == 16 && ps[0].val[2] != 0 && ps[0].pid < 0, "length 3: one padding byte, vendor-specific id");
        }
        core::mem::forget(buf);
        l += 1;
    }
    let ps = [param_of_len(6), param_of_len(4), param_of_len(1)];
    let buf = encode(&ps, 3);
    kani::cover!(buf.len() == 4 + 12 + 8 + 8 + 4, "three parameters: 36 bytes");
    core::mem::forget(buf);
}

// @check props=C13 tier=quick
// @desc encoder -> decoder, one parameter (length 3: one padding byte): looking up ANY id q with the real ParameterList returns exactly the written bytes plus zero padding if q is the written id, the caller's default otherwise (get_non_optional_parameter / PidNotFound: thorough tier, c13_roundtrip_three_parameters_b)
// @bounds one parameter of 3 bytes; id any i16 except 1 (the sentinel); bytes symbolic; looked-up id any i16 except 1 (including 0x0300 / 0x0002, the values the encapsulation header would read as: the header is not a parameter). unwind 5 (the decoder loop sees header pseudo-parameter, parameter, sentinel; harness code is loop-free)
// @enc dcps::data_representation_builtin_endpoints::rtps_data_representation_serialization::ParameterListSerializer::write_cdr_parameter
// @enc dcps::data_representation_builtin_endpoints::rtps_data_representation::ParameterList::get_optional_parameter
// @enc dcps::data_representation_builtin_endpoints::rtps_data_representation::PidIterator::next
#[kani::proof]
#[kani::unwind(5)]
fn c13_roundtrip_one_parameter() {
    let ps = [param_of_len(3), param_of_len(0), param_of_len(0)];
    let buf = encode(&ps, 1);
    let (first, q) = lookup(&buf, &ps, 1, false);
    kani::cover!(first == Some(0) && ps[0].val[2] != 0 && ps[0].pid < 0, "vendor-specific id found, one padding byte");
    kani::cover!(first.is_none(), "id absent");
    kani::cover!(first.is_none() && q == HEADER_ALIAS_LE, "looking up 0x0300 (the header read as an id) finds nothing");
    core::mem::forget(buf);
}

// @check props=C13 tier=quick
// @desc encoder -> decoder, three parameters with ANY ids (standard, unknown, PID_PAD, vendor-specific >= 0x8000; ids may repeat): a lookup returns the FIRST parameter with the looked-up id - parameters with other ids before and after it are skipped over by their length field - or the default if absent
// @bounds three parameters of lengths (0, 3, 8) (concrete), ids and value bytes symbolic; looked-up id any i16 except 1. unwind 7 (header pseudo-parameter + 3 parameters + sentinel + 2)
// @enc dcps::data_representation_builtin_endpoints::rtps_data_representation_serialization::ParameterListSerializer::write_cdr_parameter
// @enc dcps::data_representation_builtin_endpoints::rtps_data_representation::ParameterList::get_optional_parameter
// @enc dcps::data_representation_builtin_endpoints::rtps_data_representation::PidIterator::next
#[kani::proof]
#[kani::unwind(7)]
fn c13_roundtrip_three_parameters() {
    let ps = [param_of_len(0), param_of_len(3), param_of_len(8)];
    let buf = encode(&ps, 3);
    let (first, q) = lookup(&buf, &ps, 3, false);
    kani::cover!(first == Some(2) && ps[0].pid < 0, "third parameter found behind an empty vendor-specific and a padded one");
    kani::cover!(first == Some(0) && ps[1].pid == q && ps[2].pid == q, "three parameters with the same id: the first wins");
    kani::cover!(first == Some(1) && ps[0].pid == 0, "PID_PAD (0) is skipped like any other id");
    kani::cover!(first.is_none(), "id absent from a list of three");
    core::mem::forget(buf);
}

// @check props=C13 tier=thorough timeout=1800
// @desc as c13_roundtrip_three_parameters for the length triple (6, 4, 1) and, in the same harness, the empty list (header + sentinel only)
// @bounds three parameters of lengths (6, 4, 1); the empty list; ids and bytes symbolic. unwind 7
// @enc dcps::data_representation_builtin_endpoints::rtps_data_representation::ParameterList::get_optional_parameter
// @enc dcps::data_representation_builtin_endpoints::rtps_data_representation::ParameterList::get_non_optional_parameter
// @enc dcps::data_representation_builtin_endpoints::rtps_data_representation::PidIterator::next
#[kani::proof]
#[kani::unwind(7)]
fn c13_roundtrip_three_parameters_b() {
    let ps = [param_of_len(6), param_of_len(4), param_of_len(1)];
    let buf = encode(&ps, 3);
    let (first, _q) = lookup(&buf, &ps, 3, true);
    kani::cover!(first == Some(1) && ps[0].pid < 0 && ps[2].pid < 0, "found between two vendor-specific (negative i16) ids");
    kani::cover!(first == Some(2), "last parameter (1 byte, 3 padding bytes) found");
    core::mem::forget(buf);
    let ps0 = [param_of_len(0), param_of_len(0), param_of_len(0)];
    let buf0 = encode(&ps0, 0);
    let (first0, _q0) = lookup(&buf0, &ps0, 0, true);
    kani::cover!(first0.is_none(), "empty list (header + sentinel)");
    core::mem::forget(buf0);
}

// NOT decided here (observation from code reading only, see the property table 'outside'): write_cdr_parameter
// stores `(padded value length) as u16`, so a value longer than 65532 bytes gets a wrapped length field.
// Passing a 65536-byte slice to the real write_cdr_parameter makes CBMC 6.11 crash (status 139, stack
// exhaustion) before symbolic execution with the default 8 MB stack; with an unlimited stack symbolic
// execution of the 64 KiB copy alone takes 405 s and the run does not finish in 600 s; the computation is not
// factored into a function that could be called with a symbolic length.

// @check props=C13 tier=quick
// @desc regression obligation for the repaired KF-C13-2 (PidIterator used to parse the encapsulation header as a parameter): a big-endian parameter list (PL_CDR_BE, header 00 02 00 00 - what other vendors' big-endian participants send) holding PID_PARTICIPANT_LEASE_DURATION (0x0002, the value the header would read as) with a symbolic duration decodes to exactly that duration
// @bounds bytes built by hand per RTPS 9.4.2.11: header 00 02 00 00, (id 0x0002 BE, length 8 BE, sec BE, nanosec BE), sentinel; sec and nanosec symbolic. unwind 5
// @enc dcps::data_representation_builtin_endpoints::rtps_data_representation::ParameterList::get_optional_parameter
// @enc dcps::data_representation_builtin_endpoints::rtps_data_representation::PidIterator::next
#[kani::proof]
#[kani::unwind(5)]
fn c13_big_endian_lease_duration() {
    let sec: i32 = kani::any();
    let nanosec: u32 = kani::any();
    kani::assume(nanosec < 1_000_000_000);
    let s = sec.to_be_bytes();
    let ns = nanosec.to_be_bytes();
    let bytes: [u8; 20] = [
        0x00, 0x02, 0x00, 0x00, // PL_CDR_BE
        0x00, 0x02, 0x00, 0x08, // PID_PARTICIPANT_LEASE_DURATION, length 8
        s[0], s[1], s[2], s[3], ns[0], ns[1], ns[2], ns[3], //
        0x00, 0x01, 0x00, 0x00, // PID_SENTINEL
    ];
    let pl = match ParameterList::new(&bytes[..]) {
        Ok(pl) => pl,
        Err(_) => return,
    };
    let got = pl.get_optional_parameter::<Duration>(2, Duration::new(100, 0));
    kani::cover!(sec == 30, "a 30 s lease duration");
    assert!(matches!(&got, Ok(d) if d.sec == sec && d.nanosec == nanosec), "C13: the participant lease duration of a big-endian parameter list is decoded");
}

// @check props=C13 tier=quick
// @desc big-endian list, ANY written id and ANY looked-up id (including 0x0002, the value the header would read as): the parameter written after the header is found with its big-endian value, an id that is absent yields the default
// @bounds bytes built by hand: header 00 02 00 00, one parameter (id symbolic BE != 1; length 8; two symbolic 32-bit words BE), sentinel; looked-up id symbolic != 1. unwind 5
// @enc dcps::data_representation_builtin_endpoints::rtps_data_representation::ParameterList::get_optional_parameter
// @enc dcps::data_representation_builtin_endpoints::rtps_data_representation::PidIterator::next
#[kani::proof]
#[kani::unwind(5)]
fn c13_big_endian_lookup() {
    let pid: i16 = kani::any();
    let q: i16 = kani::any();
    kani::assume(pid != 1 && q != 1);
    let sec: i32 = kani::any();
    let nanosec: u32 = kani::any();
    let p = pid.to_be_bytes();
    let s = sec.to_be_bytes();
    let ns = nanosec.to_be_bytes();
    let bytes: [u8; 20] = [
        0x00, 0x02, 0x00, 0x00, p[0], p[1], 0x00, 0x08, s[0], s[1], s[2], s[3], ns[0], ns[1], ns[2], ns[3], 0x00, 0x01, 0x00, 0x00,
    ];
    let pl = match ParameterList::new(&bytes[..]) {
        Ok(pl) => pl,
        Err(_) => {
            kani::assert(false, "C13: a well-formed big-endian list is accepted");
            return;
        }
    };
    let got = pl.get_optional_parameter::<Duration>(q, Duration { sec: 7, nanosec: 7 });
    if q == pid {
        assert!(matches!(&got, Ok(d) if d.sec == sec && d.nanosec == nanosec), "C13: big-endian parameter value decoded");
    } else {
        assert!(matches!(&got, Ok(d) if d.sec == 7 && d.nanosec == 7), "C13: absent id yields the default (big-endian list)");
    }
    kani::cover!(q == pid && pid < 0, "vendor-specific id found in a big-endian list");
    kani::cover!(q != pid, "absent id in a big-endian list");
    kani::cover!(q == 2 && pid != 2, "looking up 0x0002 (the header read as an id) in a list without it yields the default");
    kani::cover!(q == 2 && pid == 2, "id 0x0002 written and found");
}

