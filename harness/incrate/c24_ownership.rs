// C24 — EXCLUSIVE ownership: only the strongest live writer affects an instance.
//
// Pattern S: ONE real `DataReaderEntity::<()>::add_reader_change` (two for the hand-over obligations)
// from a directly constructed pre-state with OWNERSHIP = EXCLUSIVE: one instance with symbolic state,
// two matched writers A and B with symbolic ownership strengths (full i32 range), an ownership record
// for the instance, and a fully symbolic incoming change from A or B.
//
// What the property demands of one step (W = writer of the change, O = recorded owner):
//   W == O                          -> the change is accepted (life cycle as in C22), O stays owner
//                                      unless the change unregisters the instance;
//   W != O, strength(W) >  s(O)     -> W takes the instance over: accepted, W is the owner;
//   W != O, strength(W) <  s(O)     -> the change is dropped (NotAdded) and has NO effect: stored
//                                      samples, owner and the instance's view/instance state and
//                                      generation counts are untouched;
//   W != O, strength(W) == s(O)     -> either of the two, decided by a deterministic rule that cannot
//                                      let both writers take the instance from each other (checked on
//                                      two independent readers by c24_tie_no_flip_flop).
// Ownership hand-over: the owner's UNREGISTER must release the instance (no ownership record is
// left, so that -- c24_free_instance_taken -- any matched writer's data is accepted next); after a
// mere DISPOSE the owner is still the strongest live writer and stays the owner; an owner that is no
// longer matched (deleted / lease expired) must not keep the instance.
use core::cmp::PartialEq; // (in scope for the trait path of the kani::stub attributes)

use super::support_reader2::*;
use crate::dcps::dcps_domain_participant::data_reader_entity::{AddChangeResult, DataReaderEntity};
use crate::infrastructure::{
    error::DdsResult,
    instance::InstanceHandle,
    sample_info::{InstanceStateKind, SampleStateKind, ViewStateKind},
};
use crate::transport::types::ChangeKind;

fn code(res: &DdsResult<AddChangeResult>) -> u8 {
    match res {
        Ok(AddChangeResult::Added) => 0,
        Ok(AddChangeResult::NotAdded) => 1,
        Ok(AddChangeResult::Rejected(_, _)) => 2,
        Err(_) => 3,
    }
}

/// Would `InstanceState::update_state(kind)` change (view, instance state, counts) of an instance in
/// state `pre`?  (The trigger of KF-C24-1: this update is applied before the ownership test.)
fn state_update_visible(pre: &ISpec, kind: ChangeKind) -> bool {
    let st_changes = match pre.st {
        InstanceStateKind::Alive => !is_alive_kind(kind),
        _ => kind == ChangeKind::Alive,
    };
    let view_changes = pre.view == ViewStateKind::NotNew
        && (kind == ChangeKind::NotAliveDisposed || kind == ChangeKind::NotAliveUnregistered);
    st_changes || view_changes
}

struct Fixture {
    r: DataReaderEntity<()>,
    h: InstanceHandle,
    a: [u8; 16],
    b: [u8; 16],
    sa: i32,
    sb: i32,
    inst: ISpec,
    stored: SSpec,
}

/// Reader with EXCLUSIVE ownership, matched writers A and B (distinct guids, symbolic strengths), one
/// instance with one stored sample written by `owner`, and the ownership record naming `owner`.
fn fixture(owner_is_a: bool, with_record: bool) -> Fixture {
    fixture_n(owner_is_a, with_record, true)
}
fn fixture_n(owner_is_a: bool, with_record: bool, with_sample: bool) -> Fixture {
    fixture_p(owner_is_a, with_record, with_sample, true)
}
/// `match_b == false`: only writer A is matched (B exists but is unknown to the reader).
fn fixture_p(owner_is_a: bool, with_record: bool, with_sample: bool, match_b: bool) -> Fixture {
    let a = wguid(kani::any());
    let b = wguid(kani::any());
    kani::assume(!eq16(&a, &b));
    let sa: i32 = kani::any();
    let sb: i32 = kani::any();
    let h = any_handle();
    let inst = any_ispec(h);
    let owner = if owner_is_a { a } else { b };
    let stored = SSpec {
        kind: any_kind(),
        writer: owner,
        inst: 0,
        h,
        ss: any_sample_state(),
        dgc: inst.dgc,
        nwgc: inst.nwgc,
        ts: None,
    };
    let mut r = reader(neutral_qos(true));
    r.matched_publication_list.push(publication(a, sa));
    if match_b {
        r.matched_publication_list.push(publication(b, sb));
    }
    r.instances.push(mk_inst(&inst));
    if with_sample {
        r.sample_list.push(mk_sample(&stored));
    }
    if with_record {
        r.instance_ownership.push(ownership(h, owner, any_time()));
    }
    Fixture { r, h, a, b, sa, sb, inst, stored }
}

#[derive(Clone, Copy, PartialEq, Eq)]
enum Part {
    Known1, // trigger of KF-C24-1
    Known2, // trigger of KF-C24-2
    Rest,   // both negated
}

fn unregisters(k: ChangeKind) -> bool {
    k == ChangeKind::NotAliveUnregistered || k == ChangeKind::NotAliveDisposedUnregistered
}

struct StepOut {
    from_owner: bool,
    stronger: bool,
    weaker: bool,
    tie: bool,
    code: u8,
    kind: ChangeKind,
}

fn c24_step(part: Part) -> StepOut {
    c24_step_kind(part, None, None, None, true)
}

/// `fixed`: a concrete change kind, `owner_sel` / `writer_sel`: concrete owner / writer (true = A, the first
/// matched publication) -- the quick-tier variants; the fully symbolic step costs 5 GB.
fn c24_step_kind(part: Part, fixed: Option<ChangeKind>, owner_sel: Option<bool>, writer_sel: Option<bool>, match_b: bool) -> StepOut {
    let owner_is_a: bool = match owner_sel {
        Some(x) => x,
        None => kani::any(),
    };
    let mut f = fixture_p(owner_is_a, true, false, match_b);
    let (o, so) = if owner_is_a { (f.a, f.sa) } else { (f.b, f.sb) };
    let w_is_a: bool = match writer_sel {
        Some(x) => x,
        None => kani::any(),
    };
    let (w, sw) = if w_is_a { (f.a, f.sa) } else { (f.b, f.sb) };
    let from_owner = w_is_a == owner_is_a;
    let kind = match fixed {
        Some(k) => k,
        None => any_kind(),
    };
    let rcv = any_time();

    let dropped_expected = !from_owner && sw <= so; // a tie may be resolved either way; the implementation keeps the owner
    let trig1 = dropped_expected && state_update_visible(&f.inst, kind);
    let trig2 = (from_owner || sw > so) && unregisters(kind);
    kani::assume(trig1 == (part == Part::Known1));
    kani::assume(trig2 == (part == Part::Known2));

    let res = f.r.add_reader_change(guid_of(w), data(), kind, bytes_of(&f.h), None, rcv);
    let c = code(&res);
    let (nrec, owner_after) = owner_of(&f.r, &f.h);
    assert!(nrec <= 1 && f.r.instance_ownership.len() <= 1, "C24: at most one ownership record per instance");
    assert!(f.r.instances.len() == 1 && f.r.matched_publication_list.len() == (if match_b { 2 } else { 1 }), "C24: instance table and matched writers are not changed in number");

    let accepted = c == 0;
    if from_owner || sw > so {
        assert!(accepted, "C24: a change from the owner or from a stronger writer is accepted");
        if is_alive_kind(kind) {
            assert!(
                nrec == 1 && owner_after.is_some() && eq16(&owner_after.unwrap(), &w),
                "C24: after accepted data the writer of the change is the owner (a stronger writer takes over)"
            );
        } else {
            // dispose / unregister by the (new) owner: no third writer becomes owner; a mere dispose keeps
            // the owner (it is still the strongest live writer), an unregister releases the instance
            assert!(nrec == 0 || (owner_after.is_some() && eq16(&owner_after.unwrap(), &w)), "C24: no third writer becomes owner");
            if unregisters(kind) {
                assert!(nrec == 0, "C24: the owner's unregister releases the instance (ownership can pass to another writer)");
            } else {
                assert!(nrec == 1, "C24: a dispose (without unregister) does not release ownership");
            }
        }
        assert!(f.r.sample_list.len() == 1, "C24: the accepted change is stored");
    } else if sw < so {
        assert!(c == 1, "C24: a change from a weaker writer is dropped (NotAdded)");
    } else {
        assert!(c == 0 || c == 1, "C24: a change from an equally strong writer is either accepted or dropped");
    }
    if c == 1 {
        // dropped: no effect at all
        assert!(f.r.sample_list.len() == 0, "C24: a dropped change is not stored");
        assert!(
            nrec == 1 && owner_after.is_some() && eq16(&owner_after.unwrap(), &o),
            "C24: a dropped change leaves the owner untouched"
        );
        assert!(
            inst_unchanged(&f.r, &f.inst),
            "C24: a change dropped by the ownership test leaves view state, instance state and generation counts untouched"
        );
    }
    if f.r.sample_list.len() == 1 {
        let x = &f.r.sample_list[0];
        assert!(
            eq16(&x.writer_guid, &w) && x.kind == kind && x.sample_state == SampleStateKind::NotRead,
            "C24: the stored change is the received one"
        );
    }
    core::mem::forget(res);
    core::mem::forget(f.r);
    StepOut { from_owner, stronger: !from_owner && sw > so, weaker: !from_owner && sw < so, tie: !from_owner && sw == so, code: c, kind }
}

// ---- quick tier: the same step with a CONCRETE change kind (about 1/3 of the formula of the symbolic-kind step) --------

// @check props=C24 tier=quick
// @desc EXCLUSIVE ownership, one DATA change (ALIVE) from either writer: data of the owner or of a stronger writer is accepted and its writer is the owner afterwards (take-over), data of a weaker writer is NotAdded, equal strengths either way; a dropped change leaves stored samples, owner, view/instance state and generation counts untouched; never more than one ownership record -- outside the trigger of KF-C24-1 (all 5 kinds: c24_step__rest, thorough)
// @bounds 1 instance (fully symbolic view/instance state, generation counts 0..10^6), no stored sample, 2 matched writers with strengths over the full i32 range, owner A or B, ALIVE change from A or B; unwind 4
// @assume negation of trigger KF-C24-1 (for ALIVE: a non-owner that is not stronger writes while the instance is not alive)
// @assume I: exactly one ownership record for the instance and its owner is a matched writer; reader QoS: EXCLUSIVE ownership, KEEP_ALL, unlimited resource limits, BY_RECEPTION_TIMESTAMP, minimum_separation 0
// @assume stub: InstanceHandle == is replaced by the equivalent branch-free 128-bit comparison (support_reader2::ih_eq; equivalence proved over all inputs by c20_stub_equivalence); [T; N] == / != [U; N] (used for the 16-byte writer guids and publication keys) by the element-wise loop-free support_reader2::arr_eq / arr_ne (equivalence on [u8; 16] proved over all inputs by c24_stub_equivalence)
// @enc dcps::dcps_domain_participant::data_reader_entity::DataReaderEntity::add_reader_change
#[kani::proof]
#[kani::unwind(4)]
#[kani::stub(<InstanceHandle as PartialEq<InstanceHandle>>::eq, super::support_reader2::ih_eq)]
#[kani::stub(<[u8; 16] as PartialEq<[u8; 16]>>::eq, super::support_reader2::arr_eq)]
#[kani::stub(<[u8; 16] as PartialEq<[u8; 16]>>::ne, super::support_reader2::arr_ne)]
fn c24_data__rest() {
    let o = c24_step_kind(Part::Rest, Some(ChangeKind::Alive), None, None, true);
    kani::cover!(o.from_owner && o.code == 0, "the owner's data was accepted");
    kani::cover!(o.stronger && o.code == 0, "a stronger writer took the instance over");
    kani::cover!(o.weaker && o.code == 1, "a weaker writer's data was dropped");
}

// @check props=C24 tier=quick known=KF-C24-1
// @desc KF-C24-1 on its most common shape: a NOT_ALIVE_DISPOSED change from a writer that is not the owner and not stronger is NotAdded and must leave view state, instance state and generation counts untouched (expected to fail; the full trigger with all kinds is c24_step__known, thorough)
// @bounds 1 instance (fully symbolic state), no stored sample, 2 matched writers with strengths over the full i32 range, owner A (first matched writer), NOT_ALIVE_DISPOSED from B; unwind 4
// @assume trigger KF-C24-1 restricted to kind NOT_ALIVE_DISPOSED: the writer is not the owner, its strength is <= the owner's, and the instance is ALIVE or NOT_NEW
// @assume I: exactly one ownership record for the instance and its owner is a matched writer; reader QoS: EXCLUSIVE ownership, KEEP_ALL, unlimited resource limits, BY_RECEPTION_TIMESTAMP, minimum_separation 0
// @assume stub: InstanceHandle == is replaced by the equivalent branch-free 128-bit comparison (support_reader2::ih_eq; equivalence proved over all inputs by c20_stub_equivalence); [T; N] == / != [U; N] (used for the 16-byte writer guids and publication keys) by the element-wise loop-free support_reader2::arr_eq / arr_ne (equivalence on [u8; 16] proved over all inputs by c24_stub_equivalence)
// @enc dcps::dcps_domain_participant::data_reader_entity::DataReaderEntity::add_reader_change
#[kani::proof]
#[kani::unwind(4)]
#[kani::stub(<InstanceHandle as PartialEq<InstanceHandle>>::eq, super::support_reader2::ih_eq)]
#[kani::stub(<[u8; 16] as PartialEq<[u8; 16]>>::eq, super::support_reader2::arr_eq)]
#[kani::stub(<[u8; 16] as PartialEq<[u8; 16]>>::ne, super::support_reader2::arr_ne)]
fn c24_weaker_dispose__known() {
    let o = c24_step_kind(Part::Known1, Some(ChangeKind::NotAliveDisposed), Some(true), Some(false), true);
    kani::cover!(o.code == 1, "a dispose of a non-owner was dropped");
}

// @check props=C24 tier=quick known=KF-C24-2
// @desc KF-C24-2 on its plain shape: a NOT_ALIVE_UNREGISTERED change from the owner is accepted and must leave no ownership record (expected to fail; both unregister kinds: c24_step_unregister__known, thorough)
// @bounds 1 instance (fully symbolic state), no stored sample, the owner A is the only matched writer (symbolic strength), NOT_ALIVE_UNREGISTERED from A; unwind 4
// @assume trigger KF-C24-2 restricted to kind NOT_ALIVE_UNREGISTERED from the owner itself
// @assume I: exactly one ownership record for the instance and its owner is a matched writer; reader QoS: EXCLUSIVE ownership, KEEP_ALL, unlimited resource limits, BY_RECEPTION_TIMESTAMP, minimum_separation 0
// @assume stub: InstanceHandle == is replaced by the equivalent branch-free 128-bit comparison (support_reader2::ih_eq; equivalence proved over all inputs by c20_stub_equivalence); [T; N] == / != [U; N] (used for the 16-byte writer guids and publication keys) by the element-wise loop-free support_reader2::arr_eq / arr_ne (equivalence on [u8; 16] proved over all inputs by c24_stub_equivalence)
// @enc dcps::dcps_domain_participant::data_reader_entity::DataReaderEntity::add_reader_change
#[kani::proof]
#[kani::unwind(4)]
#[kani::stub(<InstanceHandle as PartialEq<InstanceHandle>>::eq, super::support_reader2::ih_eq)]
#[kani::stub(<[u8; 16] as PartialEq<[u8; 16]>>::eq, super::support_reader2::arr_eq)]
#[kani::stub(<[u8; 16] as PartialEq<[u8; 16]>>::ne, super::support_reader2::arr_ne)]
fn c24_owner_unregister__known() {
    let o = c24_step_kind(Part::Known2, Some(ChangeKind::NotAliveUnregistered), Some(true), Some(true), false);
    kani::cover!(o.code == 0, "an unregister was accepted");
}

// @check props=C24 tier=thorough known=KF-C24-1
// @desc EXCLUSIVE ownership, one add_reader_change from a non-owner that is not stronger than the owner, restricted to the trigger of KF-C24-1: the dropped change must leave view state, instance state and generation counts untouched (expected to fail: add_reader_change applies InstanceState::update_state before the ownership test, so a weaker writer's dispose / unregister / write changes the instance state although the change is NotAdded)
// @bounds 1 instance (fully symbolic view/instance state, generation counts 0..10^6), no stored sample, 2 matched writers with strengths over the full i32 range, owner A or B, change from A or B of any of the 5 kinds; unwind 4 (<= 3 list entries + 1)
// @assume trigger KF-C24-1: the writer is not the owner, its strength is <= the owner's, and update_state(kind) is not the identity on the instance (ALIVE instance + dispose/unregister kind, not-alive instance + ALIVE kind, or NOT_NEW instance + NOT_ALIVE_DISPOSED / NOT_ALIVE_UNREGISTERED)
// @assume I: exactly one ownership record for the instance and its owner is a matched writer; reader QoS: EXCLUSIVE ownership, KEEP_ALL, unlimited resource limits, BY_RECEPTION_TIMESTAMP, minimum_separation 0
// @assume stub: InstanceHandle == is replaced by the equivalent branch-free 128-bit comparison (support_reader2::ih_eq; equivalence proved over all inputs by c20_stub_equivalence); [T; N] == / != [U; N] (used for the 16-byte writer guids and publication keys) by the element-wise loop-free support_reader2::arr_eq / arr_ne (equivalence on [u8; 16] proved over all inputs by c24_stub_equivalence)
// @enc dcps::dcps_domain_participant::data_reader_entity::DataReaderEntity::add_reader_change
#[kani::proof]
#[kani::unwind(4)]
#[kani::stub(<InstanceHandle as PartialEq<InstanceHandle>>::eq, super::support_reader2::ih_eq)]
#[kani::stub(<[u8; 16] as PartialEq<[u8; 16]>>::eq, super::support_reader2::arr_eq)]
#[kani::stub(<[u8; 16] as PartialEq<[u8; 16]>>::ne, super::support_reader2::arr_ne)]
fn c24_step__known() {
    let o = c24_step(Part::Known1);
    kani::cover!(o.code == 1, "a change of a non-owner was dropped");
}

// @check props=C24 tier=thorough
// @desc EXCLUSIVE ownership, one add_reader_change: a change from the owner or a stronger writer is accepted and (for data) its writer is the owner afterwards; a weaker writer's change is NotAdded; an equally strong writer's change is accepted or dropped; a dropped change leaves stored samples, owner, view/instance state and generation counts untouched; an accepted dispose keeps its writer as owner; never more than one ownership record -- outside the triggers of KF-C24-1 and KF-C24-2
// @bounds 1 instance (fully symbolic view/instance state, generation counts 0..10^6), no stored sample, 2 matched writers with strengths over the full i32 range, owner A or B, change from A or B of any of the 5 kinds; unwind 4 (<= 3 list entries + 1)
// @assume negation of trigger KF-C24-1 and of trigger KF-C24-2 (no accepted unregister)
// @assume I: exactly one ownership record for the instance and its owner is a matched writer (the unmatched-owner case is c24_owner_unmatched__known); reader QoS: EXCLUSIVE ownership, KEEP_ALL, unlimited resource limits, BY_RECEPTION_TIMESTAMP, minimum_separation 0
// @assume stub: InstanceHandle == is replaced by the equivalent branch-free 128-bit comparison (support_reader2::ih_eq; equivalence proved over all inputs by c20_stub_equivalence); [T; N] == / != [U; N] (used for the 16-byte writer guids and publication keys) by the element-wise loop-free support_reader2::arr_eq / arr_ne (equivalence on [u8; 16] proved over all inputs by c24_stub_equivalence)
// @enc dcps::dcps_domain_participant::data_reader_entity::DataReaderEntity::add_reader_change
#[kani::proof]
#[kani::unwind(4)]
#[kani::stub(<InstanceHandle as PartialEq<InstanceHandle>>::eq, super::support_reader2::ih_eq)]
#[kani::stub(<[u8; 16] as PartialEq<[u8; 16]>>::eq, super::support_reader2::arr_eq)]
#[kani::stub(<[u8; 16] as PartialEq<[u8; 16]>>::ne, super::support_reader2::arr_ne)]
fn c24_step__rest() {
    let o = c24_step(Part::Rest);
    kani::cover!(o.from_owner && o.code == 0, "the owner's change was accepted");
    kani::cover!(o.stronger && o.code == 0 && is_alive_kind(o.kind), "a stronger writer took the instance over");
    kani::cover!(o.weaker && o.code == 1, "a weaker writer's change was dropped");
    kani::cover!(o.tie, "equal strengths");
}

// @check props=C24 tier=thorough
// @desc ties: two independent readers with the same two equally strong writers; in reader 1 A owns the instance and B writes, in reader 2 B owns it and A writes: the tie rule must not let both writers take the instance from each other (no flip-flop); any deterministic rule is accepted
// @bounds 2 readers, each 1 instance / 1 stored sample / 2 matched writers with one common symbolic strength (full i32 range), data change (ALIVE); unwind 4
// @assume I: one ownership record whose owner is matched; reader QoS: EXCLUSIVE ownership, KEEP_ALL, unlimited resource limits
// @assume stub: InstanceHandle == is replaced by the equivalent branch-free 128-bit comparison (support_reader2::ih_eq; equivalence proved over all inputs by c20_stub_equivalence); [T; N] == / != [U; N] (used for the 16-byte writer guids and publication keys) by the element-wise loop-free support_reader2::arr_eq / arr_ne (equivalence on [u8; 16] proved over all inputs by c24_stub_equivalence)
// @enc dcps::dcps_domain_participant::data_reader_entity::DataReaderEntity::add_reader_change
#[kani::proof]
#[kani::unwind(4)]
#[kani::stub(<InstanceHandle as PartialEq<InstanceHandle>>::eq, super::support_reader2::ih_eq)]
#[kani::stub(<[u8; 16] as PartialEq<[u8; 16]>>::eq, super::support_reader2::arr_eq)]
#[kani::stub(<[u8; 16] as PartialEq<[u8; 16]>>::ne, super::support_reader2::arr_ne)]
fn c24_tie_no_flip_flop() {
    let a = wguid(kani::any());
    let b = wguid(kani::any());
    kani::assume(!eq16(&a, &b));
    let s: i32 = kani::any();
    let h = any_handle();
    let inst = ISpec { st: InstanceStateKind::Alive, ..any_ispec(h) };
    let mk = |owner: [u8; 16]| {
        let mut r = reader(neutral_qos(true));
        r.matched_publication_list.push(publication(a, s));
        r.matched_publication_list.push(publication(b, s));
        r.instances.push(mk_inst(&inst));
        r.instance_ownership.push(ownership(h, owner, any_time()));
        r
    };
    let mut r1 = mk(a);
    let mut r2 = mk(b);
    let t = any_time();
    let res1 = r1.add_reader_change(guid_of(b), data(), ChangeKind::Alive, bytes_of(&h), None, t);
    let res2 = r2.add_reader_change(guid_of(a), data(), ChangeKind::Alive, bytes_of(&h), None, t);
    let (_, o1) = owner_of(&r1, &h);
    let (_, o2) = owner_of(&r2, &h);
    let b_took = code(&res1) == 0 && o1.is_some() && eq16(&o1.unwrap(), &b);
    let a_took = code(&res2) == 0 && o2.is_some() && eq16(&o2.unwrap(), &a);
    assert!(!(a_took && b_took), "C24: equally strong writers cannot both take the instance from each other");
    assert!(b_took == (code(&res1) == 0) && a_took == (code(&res2) == 0), "C24: an accepted change of the challenger makes it the owner, a dropped one does not");
    kani::cover!(!a_took && !b_took, "the first owner keeps the instance on a tie");
    core::mem::forget(res1);
    core::mem::forget(res2);
    core::mem::forget(r1);
    core::mem::forget(r2);
}

// @check props=C24 tier=quick known=KF-C24-3
// @desc the recorded owner of the instance is no longer a matched writer (its DataWriter was deleted or its participant's lease expired: remove_matched_publication does not touch instance_ownership): data from a matched writer must be accepted and that writer becomes the owner (expected to fail: every change for the instance is NotAdded as long as the stale record exists)
// @bounds 1 instance (ALIVE, symbolic view state / counts), 1 stored sample of the former owner, 1 matched writer with symbolic strength, former owner's guid symbolic, data change (ALIVE); unwind 4
// @assume trigger KF-C24-3: the ownership record names a writer that is not in matched_publication_list
// @assume reader QoS: EXCLUSIVE ownership, KEEP_ALL, unlimited resource limits
// @assume stub: InstanceHandle == is replaced by the equivalent branch-free 128-bit comparison (support_reader2::ih_eq; equivalence proved over all inputs by c20_stub_equivalence); [T; N] == / != [U; N] (used for the 16-byte writer guids and publication keys) by the element-wise loop-free support_reader2::arr_eq / arr_ne (equivalence on [u8; 16] proved over all inputs by c24_stub_equivalence)
// @enc dcps::dcps_domain_participant::data_reader_entity::DataReaderEntity::add_reader_change
#[kani::proof]
#[kani::unwind(4)]
#[kani::stub(<InstanceHandle as PartialEq<InstanceHandle>>::eq, super::support_reader2::ih_eq)]
#[kani::stub(<[u8; 16] as PartialEq<[u8; 16]>>::eq, super::support_reader2::arr_eq)]
#[kani::stub(<[u8; 16] as PartialEq<[u8; 16]>>::ne, super::support_reader2::arr_ne)]
fn c24_owner_unmatched__known() {
    let gone = wguid(kani::any());
    let b = wguid(kani::any());
    kani::assume(!eq16(&gone, &b));
    let h = any_handle();
    let inst = ISpec { st: InstanceStateKind::Alive, ..any_ispec(h) };
    let mut r = reader(neutral_qos(true));
    r.matched_publication_list.push(publication(b, kani::any()));
    r.instances.push(mk_inst(&inst));
    r.instance_ownership.push(ownership(h, gone, any_time()));
    let res = r.add_reader_change(guid_of(b), data(), ChangeKind::Alive, bytes_of(&h), None, any_time());
    let (_, o) = owner_of(&r, &h);
    kani::cover!(code(&res) == 1, "the matched writer's data was dropped");
    assert!(code(&res) == 0, "C24: ownership passes to a matched writer when the recorded owner is no longer matched");
    assert!(o.is_some() && eq16(&o.unwrap(), &b), "C24: the matched writer becomes the owner");
    core::mem::forget(res);
    core::mem::forget(r);
}

// @check props=C24 tier=thorough known=KF-C24-2
// @desc the owner (or a stronger writer) UNREGISTERS the instance (NOT_ALIVE_UNREGISTERED or NOT_ALIVE_DISPOSED_UNREGISTERED): the change is accepted and must leave no ownership record, so that ownership can pass to another writer (expected to fail: add_reader_change removes the record at line 419 but re-creates it for the same writer at the end of the function when the change is stored, so every weaker writer's data stays NotAdded after the owner unregistered)
// @bounds 1 instance (fully symbolic state), no stored sample, 2 matched writers with strengths over the full i32 range, owner A or B, unregister change from the owner or from the stronger of the two; unwind 4
// @assume trigger KF-C24-2: an accepted change of kind NOT_ALIVE_UNREGISTERED or NOT_ALIVE_DISPOSED_UNREGISTERED (writer is the owner or stronger than the owner)
// @assume I: exactly one ownership record for the instance and its owner is a matched writer; reader QoS: EXCLUSIVE ownership, KEEP_ALL, unlimited resource limits, BY_RECEPTION_TIMESTAMP, minimum_separation 0
// @assume stub: InstanceHandle == is replaced by the equivalent branch-free 128-bit comparison (support_reader2::ih_eq; equivalence proved over all inputs by c20_stub_equivalence); [T; N] == / != [U; N] (used for the 16-byte writer guids and publication keys) by the element-wise loop-free support_reader2::arr_eq / arr_ne (equivalence on [u8; 16] proved over all inputs by c24_stub_equivalence)
// @enc dcps::dcps_domain_participant::data_reader_entity::DataReaderEntity::add_reader_change
#[kani::proof]
#[kani::unwind(4)]
#[kani::stub(<InstanceHandle as PartialEq<InstanceHandle>>::eq, super::support_reader2::ih_eq)]
#[kani::stub(<[u8; 16] as PartialEq<[u8; 16]>>::eq, super::support_reader2::arr_eq)]
#[kani::stub(<[u8; 16] as PartialEq<[u8; 16]>>::ne, super::support_reader2::arr_ne)]
fn c24_step_unregister__known() {
    let o = c24_step(Part::Known2);
    kani::cover!(o.code == 0, "an unregister was accepted");
}

// @check props=C24 tier=thorough
// @desc an instance without ownership record (never owned, or released by a missed deadline or -- once KF-C24-2 is repaired -- by the owner's unregister): data from any matched writer, whatever its strength, is accepted and that writer is the owner afterwards -- together with 'the owner's unregister releases the instance' (c24_step_unregister__known) this is the hand-over on unregister
// @bounds 1 instance (fully symbolic state), no stored sample, writers A and B matched with symbolic strengths (full i32 range), no ownership record, one ALIVE change from A or B; unwind 4
// @assume reader QoS: EXCLUSIVE ownership, KEEP_ALL, unlimited resource limits
// @assume stub: InstanceHandle == is replaced by the equivalent branch-free 128-bit comparison (support_reader2::ih_eq; equivalence proved over all inputs by c20_stub_equivalence); [T; N] == / != [U; N] (used for the 16-byte writer guids and publication keys) by the element-wise loop-free support_reader2::arr_eq / arr_ne (equivalence on [u8; 16] proved over all inputs by c24_stub_equivalence)
// @enc dcps::dcps_domain_participant::data_reader_entity::DataReaderEntity::add_reader_change
#[kani::proof]
#[kani::unwind(4)]
#[kani::stub(<InstanceHandle as PartialEq<InstanceHandle>>::eq, super::support_reader2::ih_eq)]
#[kani::stub(<[u8; 16] as PartialEq<[u8; 16]>>::eq, super::support_reader2::arr_eq)]
#[kani::stub(<[u8; 16] as PartialEq<[u8; 16]>>::ne, super::support_reader2::arr_ne)]
fn c24_free_instance_taken() {
    let mut f = fixture_n(true, false, false);
    let w = if kani::any() { f.a } else { f.b };
    let res = f.r.add_reader_change(guid_of(w), data(), ChangeKind::Alive, bytes_of(&f.h), None, any_time());
    let (nrec, o) = owner_of(&f.r, &f.h);
    assert!(code(&res) == 0, "C24: data for an instance nobody owns is accepted");
    assert!(nrec == 1 && o.is_some() && eq16(&o.unwrap(), &w), "C24: the writer whose data was accepted is the owner");
    kani::cover!(f.sa < f.sb && eq16(&w, &f.a), "the weaker writer took a free instance");
    core::mem::forget(res);
    core::mem::forget(f.r);
}

// @check props=C24 tier=thorough
// @desc the loop-free array comparison stubs agree with the library's == / != on [u8; 16] for all pairs of arrays (all 32 bytes symbolic)
// @bounds none (all 2^256 pairs); unwind 17 (the library comparison is a 16-byte memcmp loop)
// @enc core::array::equality::eq
#[kani::proof]
#[kani::unwind(17)]
fn c24_stub_equivalence() {
    let a: [u8; 16] = kani::any();
    let b: [u8; 16] = kani::any();
    assert!((a == b) == arr_eq(&a, &b), "stub: arr_eq agrees with [u8; 16] ==");
    assert!((a != b) == arr_ne(&a, &b), "stub: arr_ne agrees with [u8; 16] !=");
    kani::cover!(a == b, "equal arrays");
    kani::cover!(a != b, "different arrays");
}
