// C38 — UDP transport fragment size: set_fragment_size accepts exactly 8..=65000 and leaves the
// previous setting unchanged on rejection. The factory is a plain struct (no sockets are opened
// before create_participant), so the real default() / set_fragment_size() / fragment_size() are
// executed directly; a, b range over the full usize domain, the code is loop-free.
use crate::infrastructure::error::DdsError;
use crate::rtps_udp_transport::udp_transport::RtpsUdpTransportParticipantFactory;

// DDS-side oracle = the documented contract of set_fragment_size ("range between 8 to 65000").
fn documented_range(v: usize) -> bool {
    8 <= v && v <= 65000
}

// One call; returns (is_ok, is_bad_parameter).
fn call(f: &mut RtpsUdpTransportParticipantFactory, v: usize) -> (bool, bool) {
    match f.set_fragment_size(v) {
        Ok(_) => (true, false),
        Err(DdsError::BadParameter) => (false, true),
        Err(_) => (false, false),
    }
}

// @check props=C38 tier=quick
// @desc first call on default(): set_fragment_size(a) is Ok iff 8 <= a <= 65000; Ok stores a; Err is BadParameter and keeps the default 1344
// @bounds none (a over the full usize domain; loop-free code, no unwinding bound)
// @enc rtps_udp_transport::udp_transport::RtpsUdpTransportParticipantFactory::set_fragment_size
// @enc rtps_udp_transport::udp_transport::RtpsUdpTransportParticipantFactory::default
#[kani::proof]
fn c38_first_call() {
    let a: usize = kani::any();
    let mut f = RtpsUdpTransportParticipantFactory::default();
    let before = f.fragment_size();
    assert!(before == 1344 && documented_range(before), "C38: default fragment size is 1344, inside the range");
    let (ok, bad) = call(&mut f, a);
    assert!(ok == documented_range(a), "C38: set_fragment_size accepts exactly 8..=65000 (first call)");
    if ok {
        assert!(f.fragment_size() == a, "C38: accepted value is stored (first call)");
    } else {
        assert!(bad, "C38: rejection is BadParameter (first call)");
        assert!(f.fragment_size() == before, "C38: rejected call leaves the previous setting (first call)");
    }
    kani::cover!(a == 0, "a = 0 reachable");
    kani::cover!(a == usize::MAX, "a = usize::MAX reachable");
    kani::cover!(ok && a == 8, "lower boundary accepted");
    kani::cover!(ok && a == 65000, "upper boundary accepted");
    kani::cover!(!ok && a == 7, "just below rejected");
    kani::cover!(!ok && a == 65001, "just above rejected");
}

// @check props=C38 tier=quick
// @desc second call from ANY setting the first call can leave behind: set_fragment_size(b) is Ok iff 8 <= b <= 65000, Ok stores b, Err is BadParameter and leaves fragment_size() unchanged; the stored setting is always inside 8..=65000 (representation invariant, so longer histories add nothing)
// @bounds none (a, b over the full usize domain); history: default() + two calls, closed by the invariant 'stored value in range'
// @enc rtps_udp_transport::udp_transport::RtpsUdpTransportParticipantFactory::set_fragment_size
// @enc rtps_udp_transport::udp_transport::RtpsUdpTransportParticipantFactory::fragment_size
#[kani::proof]
fn c38_second_call() {
    let a: usize = kani::any();
    let b: usize = kani::any();
    let mut f = RtpsUdpTransportParticipantFactory::default();
    let _ = call(&mut f, a);
    let before = f.fragment_size();
    assert!(documented_range(before), "C38: stored setting stays inside 8..=65000 (invariant)");
    let (ok, bad) = call(&mut f, b);
    assert!(ok == documented_range(b), "C38: set_fragment_size accepts exactly 8..=65000 (second call)");
    if ok {
        assert!(f.fragment_size() == b, "C38: accepted value is stored (second call)");
    } else {
        assert!(bad, "C38: rejection is BadParameter (second call)");
        assert!(f.fragment_size() == before, "C38: rejected call leaves the previous setting (second call)");
    }
    assert!(documented_range(f.fragment_size()), "C38: stored setting stays inside 8..=65000 (invariant after)");
    kani::cover!(ok && before != 1344 && b == 8, "accepted lower boundary from a non-default setting");
    kani::cover!(!ok && before != 1344 && b == 65001, "b just above the range rejected from a non-default setting");
    kani::cover!(!ok && b == 7, "b just below the range rejected");
    kani::cover!(!documented_range(a) && ok, "valid b after a rejected first call");
}
