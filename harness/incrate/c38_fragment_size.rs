// C38 — UDP transport fragment size: set_fragment_size accepts exactly 8..=65000 and leaves the
// previous setting unchanged on rejection. The factory is a plain struct (no sockets are opened
// before create_participant), so the real default() / set_fragment_size() / fragment_size() are
// executed directly; a, b range over the full usize domain, the code is loop-free.
use crate::infrastructure::error::DdsError;
use crate::rtps_udp_transport::udp_transport::RtpsUdpTransportParticipantFactory;

// DDS-side oracle = the documented contract of set_fragment_size ("range between 8 to 65000").
fn documented_range(v: usize) -> bool {
    8 <= v && v <= 65000
}

// One call from the default factory; returns (is_ok, is_bad_parameter, fragment_size afterwards).
fn call(f: &mut RtpsUdpTransportParticipantFactory, v: usize) -> (bool, bool) {
    match f.set_fragment_size(v) {
        Ok(_) => (true, false),
        Err(DdsError::BadParameter) => (false, true),
        Err(_) => (false, false),
    }
}

// Trigger of KF-C38-1: the range test of set_fragment_size looks at the *stored* value instead of
// the argument. From default() (1344, in range) a first call therefore accepts every argument; the
// verdict of a call differs from the contract exactly when
//      in_range(argument) != in_range(previous setting).
fn kf_c38_1_trigger(previous: usize, argument: usize) -> bool {
    documented_range(argument) != documented_range(previous)
}

// @check props=C38 tier=quick known=KF-C38-1
// @desc first call on default(): set_fragment_size(a) is Ok iff 8 <= a <= 65000, Err is BadParameter and keeps 1344 — restricted to the recorded trigger (a outside the range; the stored 1344 is inside)
// @bounds none (a over the full usize domain, restricted to the trigger region a < 8 or a > 65000)
// @assume trigger of KF-C38-1: in_range(a) != in_range(1344), i.e. a is outside 8..=65000
// @enc rtps_udp_transport::udp_transport::RtpsUdpTransportParticipantFactory::set_fragment_size
// @enc rtps_udp_transport::udp_transport::RtpsUdpTransportParticipantFactory::default
#[kani::proof]
fn c38_first_call__known() {
    let a: usize = kani::any();
    let mut f = RtpsUdpTransportParticipantFactory::default();
    let before = f.fragment_size();
    kani::assume(kf_c38_1_trigger(before, a));
    let (ok, bad) = call(&mut f, a);
    assert!(ok == documented_range(a), "C38: set_fragment_size accepts exactly 8..=65000 (first call)");
    if !ok {
        assert!(bad, "C38: rejection is BadParameter (first call)");
        assert!(f.fragment_size() == before, "C38: rejected call leaves the previous setting (first call)");
    }
    kani::cover!(a == 0, "a = 0 reachable");
    kani::cover!(a == usize::MAX, "a = usize::MAX reachable");
}

// @check props=C38 tier=quick
// @desc first call on default() with the argument inside the documented range: Ok, fragment_size() == a
// @bounds none (a over the full usize domain, negation of the KF-C38-1 trigger: 8 <= a <= 65000)
// @assume negation of the KF-C38-1 trigger for the first call: in_range(a) == in_range(1344)
// @enc rtps_udp_transport::udp_transport::RtpsUdpTransportParticipantFactory::set_fragment_size
#[kani::proof]
fn c38_first_call__rest() {
    let a: usize = kani::any();
    let mut f = RtpsUdpTransportParticipantFactory::default();
    let before = f.fragment_size();
    assert!(before == 1344 && documented_range(before), "C38: default fragment size is 1344, inside the range");
    kani::assume(!kf_c38_1_trigger(before, a));
    let (ok, bad) = call(&mut f, a);
    assert!(ok == documented_range(a), "C38: set_fragment_size accepts exactly 8..=65000 (first call)");
    assert!(!bad, "C38: no BadParameter for an argument inside the range");
    assert!(f.fragment_size() == a, "C38: accepted value is stored");
    kani::cover!(a == 8, "lower boundary");
    kani::cover!(a == 65000, "upper boundary");
}

// @check props=C38 tier=quick known=KF-C38-1
// @desc second call from ANY previous setting reached by set_fragment_size(a): set_fragment_size(b) is Ok iff 8 <= b <= 65000; on Err(BadParameter) fragment_size() is unchanged — restricted to the recorded trigger
// @bounds none (a, b over the full usize domain; restricted to in_range(b) != in_range(setting after the first call))
// @assume trigger of KF-C38-1 on the second call: in_range(b) != in_range(fragment_size() before the call)
// @enc rtps_udp_transport::udp_transport::RtpsUdpTransportParticipantFactory::set_fragment_size
#[kani::proof]
fn c38_second_call__known() {
    let a: usize = kani::any();
    let b: usize = kani::any();
    let mut f = RtpsUdpTransportParticipantFactory::default();
    let _ = call(&mut f, a);
    let before = f.fragment_size();
    kani::assume(kf_c38_1_trigger(before, b));
    let (ok, bad) = call(&mut f, b);
    assert!(ok == documented_range(b), "C38: set_fragment_size accepts exactly 8..=65000 (second call)");
    if !ok {
        assert!(bad, "C38: rejection is BadParameter (second call)");
        assert!(f.fragment_size() == before, "C38: rejected call leaves the previous setting (second call)");
    }
    kani::cover!(!documented_range(before) && documented_range(b), "valid b after an out-of-range setting got stored");
    kani::cover!(documented_range(before) && b == 65001, "b just above the range from a valid setting");
    kani::cover!(documented_range(before) && b == 7, "b just below the range from a valid setting");
}

// @check props=C38 tier=quick
// @desc second call from ANY previous setting reached by set_fragment_size(a), outside the KF-C38-1 trigger: Ok iff 8 <= b <= 65000, Ok stores b, Err is BadParameter and leaves fragment_size() unchanged
// @bounds none (a, b over the full usize domain; negation of the trigger: in_range(b) == in_range(previous setting))
// @assume negation of the KF-C38-1 trigger on the second call
// @enc rtps_udp_transport::udp_transport::RtpsUdpTransportParticipantFactory::set_fragment_size
// @enc rtps_udp_transport::udp_transport::RtpsUdpTransportParticipantFactory::fragment_size
#[kani::proof]
fn c38_second_call__rest() {
    let a: usize = kani::any();
    let b: usize = kani::any();
    let mut f = RtpsUdpTransportParticipantFactory::default();
    let _ = call(&mut f, a);
    let before = f.fragment_size();
    kani::assume(!kf_c38_1_trigger(before, b));
    let (ok, bad) = call(&mut f, b);
    assert!(ok == documented_range(b), "C38: set_fragment_size accepts exactly 8..=65000 (second call)");
    if ok {
        assert!(f.fragment_size() == b, "C38: accepted value is stored (second call)");
    } else {
        assert!(bad, "C38: rejection is BadParameter (second call)");
        assert!(f.fragment_size() == before, "C38: rejected call leaves the previous setting (second call)");
    }
    kani::cover!(ok && b == 8, "accepted lower boundary");
    kani::cover!(ok && b == 65000, "accepted upper boundary");
    // (rejections from an in-range setting lie inside the trigger region: see c38_second_call__known)
}
