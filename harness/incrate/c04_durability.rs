// C04 — durability: what a reliable writer sends to a late-joining VOLATILE / TRANSIENT_LOCAL reader,
// and when the reader considers the historical data received.
use alloc::sync::Arc;
use alloc::vec::Vec;

use super::support_rtps as s;
use crate::rtps::stateful_writer::RtpsStatefulWriter;
use crate::rtps_messages::types::{DATA, GAP, HEARTBEAT, INFO_DST, INFO_TS};
use crate::transport::types::{DurabilityKind, ReliabilityKind};

// NOT INDEXED (measured: symbolic execution 590 s, 2.08 M steps, then CBMC runs out of 12 GB in propositional
// reduction - even with every loop of write_message_reliable/best_effort bounded to its minimum by --unwindset).
// Kept as the record of the obligation that could not be decided; see vlib/ptab/rtps_proto.py "outside".
// @disabled-check props=C04 tier=thorough timeout=2400
// @desc Late-joining reader, writer side: a reliable writer holds one change (sn symbolic in 1..=3, written before the match) when a reliable reader with symbolic durability is matched; then write_message runs. VOLATILE: no DATA submessage is emitted at all (the change is announced as GAP), TRANSIENT_LOCAL: the retained change is emitted as DATA with its payload, or - when sequence numbers below it are missing from the history - its sequence number is covered by a HEARTBEAT(first,last) that lets the reader request it.
// @bounds one retained change, sn in 1..=3, payload 2 symbolic bytes; unwind 5
// @assume datagram container stubbed by support_rtps::from_submessages_staged; critical-section stubs (support_cs)
// @enc rtps::stateful_writer::RtpsStatefulWriter::add_matched_reader
// @enc rtps::stateful_writer::RtpsStatefulWriter::write_message
#[kani::proof]
#[kani::unwind(5)]
#[kani::stub(crate::rtps_messages::overall_structure::RtpsMessageWrite::from_submessages, super::support_rtps::from_submessages_staged)]
#[kani::stub(critical_section::acquire, super::support_cs::cs_acquire)]
#[kani::stub(critical_section::release, super::support_cs::cs_release)]
fn c04_late_joiner_push() {
    let mut w = RtpsStatefulWriter::new(s::W_GUID, 1000);
    let sn: i64 = kani::any();
    kani::assume(sn >= 1 && sn <= 3);
    let bytes: [u8; 2] = kani::any();
    w.changes_mut().push(s::change(sn, Arc::from(&bytes[..])));
    let volatile: bool = kani::any();
    let dur = if volatile { DurabilityKind::Volatile } else { DurabilityKind::TransientLocal };
    w.add_matched_reader(s::reader_proxy(ReliabilityKind::Reliable, dur));
    let out = s::Sent::new();
    w.write_message(&out, &s::FixedClock);
    let n = s::staged_count();
    assert!(out.n.get() == n, "C04: every datagram built is handed to the transport");
    let mut data_seen = false;
    let mut covered = false;
    let mut i = 0;
    while i < n {
        let (nsub, _p) = s::staged_meta(i);
        let s1 = s::staged_sub(i, 1);
        if s1.id() == INFO_TS {
            let d = s::staged_sub(i, 2);
            assert!(d.id() == DATA, "C04: INFO_TS is followed by DATA");
            assert!(d.sn(s::OFF_SN) == sn, "C04: DATA carries the retained change's sequence number");
            let pay = s::OFF_DATA_QOS + s::LEN_EMPTY_QOS;
            assert!(d.len() + 4 - pay == 2 && d.at(pay) == bytes[0] && d.at(pay + 1) == bytes[1], "C04: DATA payload intact");
            data_seen = true;
        } else if s1.id() == GAP {
            // GAP (9.4.5.6): readerId 4, writerId 8, gapStart 12, gapList.base 20, numBits 28
            let start = s1.sn(12);
            let base = s1.sn(20);
            assert!(s1.u32(28) == 0, "C04: GAPs of the push path carry an empty bitmap");
            if start <= sn && sn < base {
                covered = true;
            }
            if nsub == 3 {
                let hb = s::staged_sub(i, 2);
                assert!(hb.id() == HEARTBEAT && hb.sn(12) == sn && hb.sn(20) == sn, "C04: HEARTBEAT announces first = last = the retained change");
            }
        }
        i += 1;
    }
    if volatile {
        assert!(!data_seen, "C04: a VOLATILE reader is never sent a change written before it was matched");
        assert!(covered, "C04: the pre-match change is announced to the VOLATILE reader as irrelevant (GAP)");
    } else {
        assert!(!covered, "C04: a retained change is never GAPped for a TRANSIENT_LOCAL reader");
    }
    kani::cover!(volatile && covered, "volatile: GAP");
    kani::cover!(!volatile && data_seen, "transient-local: DATA pushed");
    kani::cover!(!volatile && !data_seen, "transient-local: change skipped by the gap branch (must be requested)");
    core::mem::forget(w);
}

// @check props=C04 tier=quick
// @desc wait_for_historical_data predicate along a catch-up: a writer proxy that never accepted a HEARTBEAT reports is_historical_data_received() == false whatever it has received; after the first accepted HEARTBEAT(first,last) (real glue statements, ACKNACK emitted) it is true iff no sequence number in max(first,highest+1)..=last is missing; if exactly one change is missing, receiving exactly that change (received_change_set, as on_data_submessage does) makes it true, and declaring it irrelevant by GAP (irrelevant_change_set) does too. RtpsStatefulReader::is_historical_data_received (conjunction over matched writers) is checked in the no-HEARTBEAT state with one matched writer; the catch-up runs on a stand-alone RtpsWriterProxy (through the reader the same step exceeded 11.6 GB).
// @bounds proxy state symbolic with sequence numbers <= 1000, at most 3 missing changes after the HEARTBEAT, HEARTBEAT count full i32; unwind 6
// @assume writer-proxy representation invariant; HEARTBEAT validity firstSN >= 1, lastSN >= firstSN-1
// @assume glue statements of handle_heartbeat_submessage replicated by support_rtps::glue_heartbeat_proxy (source guard); datagram container stubbed by support_rtps::from_submessages_staged; critical-section stubs
// @enc rtps::writer_proxy::RtpsWriterProxy::is_historical_data_received
// @enc rtps::stateful_reader::RtpsStatefulReader::is_historical_data_received
// @enc rtps::writer_proxy::RtpsWriterProxy::missing_changes_update
// @enc rtps::writer_proxy::RtpsWriterProxy::received_change_set
#[kani::proof]
#[kani::unwind(6)]
#[kani::stub(crate::rtps_messages::overall_structure::RtpsMessageWrite::from_submessages, super::support_rtps::from_submessages_staged)]
#[kani::stub(critical_section::acquire, super::support_cs::cs_acquire)]
#[kani::stub(critical_section::release, super::support_cs::cs_release)]
fn c04_historical_data_received() {
    use crate::rtps_messages::submessages::heartbeat::HeartbeatSubmessage;
    // reader level: the conjunction over matched writers is false while its only writer proxy saw no HEARTBEAT
    let r = s::new_reader(ReliabilityKind::Reliable);
    assert!(!r.is_historical_data_received(), "C04: a reader with a matched writer has no historical data before the first HEARTBEAT");
    core::mem::forget(r);

    let mut wp = s::new_proxy(ReliabilityKind::Reliable);
    let highest: i64 = kani::any();
    kani::assume(highest >= 0 && highest <= 1000);
    wp.received_change_set(highest);
    assert!(!wp.is_historical_data_received(), "C04: no historical data before the first HEARTBEAT, whatever was received");

    let first: i64 = kani::any();
    let last: i64 = kani::any();
    let count: i32 = kani::any();
    kani::assume(first >= 1 && first <= 1000 && last >= first - 1 && last <= 1000);
    let fm = core::cmp::max(first, highest + 1);
    kani::assume(last - fm < 3);
    let n_missing = if last >= fm { last - fm + 1 } else { 0 };
    let hb = HeartbeatSubmessage::new(kani::any(), false, s::R_ID, s::W_ID, first, last, count);
    let out = s::Sent::new();
    let accepted = s::glue_heartbeat_proxy(&mut wp, &s::R_GUID, &hb, &out);
    assert!(accepted == (count > 0), "C04: the first HEARTBEAT is accepted iff its count is positive");
    let done = wp.is_historical_data_received();
    assert!(done == (accepted && n_missing == 0), "C04: historical data received iff a HEARTBEAT was accepted and nothing it announced is missing");
    if accepted && n_missing == 1 {
        if kani::any() {
            wp.received_change_set(last);
        } else {
            wp.irrelevant_change_set(last);
        }
        assert!(wp.is_historical_data_received(), "C04: receiving (or being told to skip) the last missing change completes the historical data");
    }
    kani::cover!(accepted && n_missing == 0, "heartbeat seen, nothing missing");
    kani::cover!(accepted && n_missing == 3, "heartbeat seen, three changes missing");
    kani::cover!(accepted && n_missing == 1, "catch-up of the last missing change");
    kani::cover!(!accepted, "heartbeat with non-positive count ignored");
    core::mem::forget(wp);
}
