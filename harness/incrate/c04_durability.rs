// C04 — durability: what a reliable writer sends to a late-joining VOLATILE / TRANSIENT_LOCAL reader,
// and when the reader considers the historical data received.
use alloc::sync::Arc;
use alloc::vec::Vec;

use super::support_rtps as s;
use crate::rtps::stateful_writer::RtpsStatefulWriter;
use crate::rtps_messages::types::{DATA, GAP, HEARTBEAT, INFO_DST, INFO_TS};
use crate::transport::types::{DurabilityKind, ReliabilityKind};

// @check props=C04 tier=quick
// @desc Late-joining reader, writer side: a reliable writer holds one change (sn symbolic in 1..=3, written before the match) when a reliable reader with symbolic durability is matched; then write_message runs. VOLATILE: no DATA submessage is emitted at all (the change is announced as GAP), TRANSIENT_LOCAL: the retained change is emitted as DATA with its payload, or - when sequence numbers below it are missing from the history - its sequence number is covered by a HEARTBEAT(first,last) that lets the reader request it.
// @bounds one retained change, sn in 1..=3, payload 2 symbolic bytes; unwind 5
// @assume datagram container stubbed by support_rtps::from_submessages_staged; critical-section stubs (support_cs)
// @enc rtps::stateful_writer::RtpsStatefulWriter::add_matched_reader
// @enc rtps::stateful_writer::RtpsStatefulWriter::write_message
#[kani::proof]
#[kani::unwind(5)]
#[kani::stub(crate::rtps_messages::overall_structure::RtpsMessageWrite::from_submessages, super::support_rtps::from_submessages_staged)]
#[kani::stub(critical_section::acquire, super::support_cs::cs_acquire)]
#[kani::stub(critical_section::release, super::support_cs::cs_release)]
fn c04_late_joiner_push() {
    let mut w = RtpsStatefulWriter::new(s::W_GUID, 1000);
    let sn: i64 = kani::any();
    kani::assume(sn >= 1 && sn <= 3);
    let bytes: [u8; 2] = kani::any();
    w.changes_mut().push(s::change(sn, Arc::from(&bytes[..])));
    let volatile: bool = kani::any();
    let dur = if volatile { DurabilityKind::Volatile } else { DurabilityKind::TransientLocal };
    w.add_matched_reader(s::reader_proxy(ReliabilityKind::Reliable, dur));
    let out = s::Sent::new();
    w.write_message(&out, &s::FixedClock);
    let n = s::staged_count();
    assert!(out.n.get() == n, "C04: every datagram built is handed to the transport");
    let mut data_seen = false;
    let mut covered = false;
    let mut i = 0;
    while i < n {
        let (nsub, _p) = s::staged_meta(i);
        let s1 = s::staged_sub(i, 1);
        if s1.id() == INFO_TS {
            let d = s::staged_sub(i, 2);
            assert!(d.id() == DATA, "C04: INFO_TS is followed by DATA");
            assert!(d.sn(s::OFF_SN) == sn, "C04: DATA carries the retained change's sequence number");
            let pay = s::OFF_DATA_QOS + s::LEN_EMPTY_QOS;
            assert!(d.len() + 4 - pay == 2 && d.at(pay) == bytes[0] && d.at(pay + 1) == bytes[1], "C04: DATA payload intact");
            data_seen = true;
        } else if s1.id() == GAP {
            // GAP (9.4.5.6): readerId 4, writerId 8, gapStart 12, gapList.base 20, numBits 28
            let start = s1.sn(12);
            let base = s1.sn(20);
            assert!(s1.u32(28) == 0, "C04: GAPs of the push path carry an empty bitmap");
            if start <= sn && sn < base {
                covered = true;
            }
            if nsub == 3 {
                let hb = s::staged_sub(i, 2);
                assert!(hb.id() == HEARTBEAT && hb.sn(12) == sn && hb.sn(20) == sn, "C04: HEARTBEAT announces first = last = the retained change");
            }
        }
        i += 1;
    }
    if volatile {
        assert!(!data_seen, "C04: a VOLATILE reader is never sent a change written before it was matched");
        assert!(covered, "C04: the pre-match change is announced to the VOLATILE reader as irrelevant (GAP)");
    } else {
        assert!(!covered, "C04: a retained change is never GAPped for a TRANSIENT_LOCAL reader");
    }
    kani::cover!(volatile && covered, "volatile: GAP");
    kani::cover!(!volatile && data_seen, "transient-local: DATA pushed");
    kani::cover!(!volatile && !data_seen, "transient-local: change skipped by the gap branch (must be requested)");
    core::mem::forget(w);
}
