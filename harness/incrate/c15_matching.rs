// C15 — endpoint matching: request/offered QoS compatibility (pattern D, differential).
// The two real compatibility functions of dust-dds
//   get_discovered_reader_incompatible_qos_policy_list  (writer side: local writer vs discovered reader)
//   get_discovered_writer_incompatible_qos_policy_list  (reader side: local reader vs discovered writer)
// are executed on the SAME symbolic (writer QoS, publisher QoS, reader QoS, subscriber QoS) and
// compared against a reference table written from DDS 1.4 §2.2.3 / XTypes 1.3 §7.6.3.1 (below).
// Outside: topic/type name equality, type assignability, partition matching (regex engine).
use super::support_qos as sq;
use crate::dcps::dcps_domain_participant::discovery_methods::s2e_systems_dust_dds_verif_hooks as hooks;
use crate::infrastructure::qos::{DataReaderQos, DataWriterQos, PublisherQos, SubscriberQos};
use crate::infrastructure::qos_policy::{
    QosPolicyId, DATA_REPRESENTATION_QOS_POLICY_ID, DEADLINE_QOS_POLICY_ID,
    DESTINATIONORDER_QOS_POLICY_ID, DURABILITY_QOS_POLICY_ID, LATENCYBUDGET_QOS_POLICY_ID,
    LIVELINESS_QOS_POLICY_ID, OWNERSHIP_QOS_POLICY_ID, PRESENTATION_QOS_POLICY_ID,
    RELIABILITY_QOS_POLICY_ID, XCDR_DATA_REPRESENTATION,
};
use alloc::vec::Vec;

const fn bit(id: QosPolicyId) -> u32 {
    1u32 << id
}
const RXO_BITS: u32 = bit(DURABILITY_QOS_POLICY_ID)
    | bit(PRESENTATION_QOS_POLICY_ID)
    | bit(DEADLINE_QOS_POLICY_ID)
    | bit(LATENCYBUDGET_QOS_POLICY_ID)
    | bit(LIVELINESS_QOS_POLICY_ID)
    | bit(RELIABILITY_QOS_POLICY_ID)
    | bit(DESTINATIONORDER_QOS_POLICY_ID)
    | bit(OWNERSHIP_QOS_POLICY_ID)
    | bit(DATA_REPRESENTATION_QOS_POLICY_ID);

// ---- reference table (DDS 1.4 §2.2.3.x "The value offered is considered compatible with the value
// requested if and only if ...") : returns the set of INCOMPATIBLE policy ids as a bit mask --------
fn presentation_compatible(p: &PublisherQos, s: &SubscriberQos) -> bool {
    // §2.2.3.6: offered access_scope >= requested; requested coherent (ordered) FALSE or both TRUE
    sq::access_scope_rank(p.presentation.access_scope) >= sq::access_scope_rank(s.presentation.access_scope)
        && (!s.presentation.coherent_access || p.presentation.coherent_access)
        && (!s.presentation.ordered_access || p.presentation.ordered_access)
}
fn liveliness_compatible(w: &DataWriterQos, r: &DataReaderQos) -> bool {
    // §2.2.3.11: offered kind >= requested kind AND offered lease_duration <= requested lease_duration
    sq::liveliness_rank(w.liveliness.kind) >= sq::liveliness_rank(r.liveliness.kind)
        && sq::dur_le(&w.liveliness.lease_duration, &r.liveliness.lease_duration)
}
fn representation_compatible(w: &DataWriterQos, r: &DataReaderQos) -> bool {
    // XTypes 1.3 §7.6.3.1.1: the writer offers its first representation; the reader requests any of
    // its list; an empty list is equivalent to [XCDR_DATA_REPRESENTATION].
    let offered = if w.representation.value.len() > 0 { w.representation.value[0] } else { XCDR_DATA_REPRESENTATION };
    let n = r.representation.value.len();
    if n == 0 {
        offered == XCDR_DATA_REPRESENTATION
    } else {
        (n >= 1 && r.representation.value[0] == offered) || (n >= 2 && r.representation.value[1] == offered)
    }
}
fn table(w: &DataWriterQos, p: &PublisherQos, r: &DataReaderQos, s: &SubscriberQos) -> u32 {
    let mut m = 0u32;
    if sq::durability_rank(w.durability.kind) < sq::durability_rank(r.durability.kind) {
        m |= bit(DURABILITY_QOS_POLICY_ID); // §2.2.3.4 offered kind >= requested kind
    }
    if !presentation_compatible(p, s) {
        m |= bit(PRESENTATION_QOS_POLICY_ID);
    }
    if !sq::dur_le(&w.deadline.period, &r.deadline.period) {
        m |= bit(DEADLINE_QOS_POLICY_ID); // §2.2.3.7 offered period <= requested period
    }
    if !sq::dur_le(&w.latency_budget.duration, &r.latency_budget.duration) {
        m |= bit(LATENCYBUDGET_QOS_POLICY_ID); // §2.2.3.8 offered duration <= requested duration
    }
    if !liveliness_compatible(w, r) {
        m |= bit(LIVELINESS_QOS_POLICY_ID);
    }
    if sq::reliability_rank(w.reliability.kind) < sq::reliability_rank(r.reliability.kind) {
        m |= bit(RELIABILITY_QOS_POLICY_ID); // §2.2.3.14
    }
    if sq::destination_order_rank(w.destination_order.kind) < sq::destination_order_rank(r.destination_order.kind) {
        m |= bit(DESTINATIONORDER_QOS_POLICY_ID); // §2.2.3.17
    }
    if w.ownership.kind != r.ownership.kind {
        m |= bit(OWNERSHIP_QOS_POLICY_ID); // §2.2.3.9 offered kind == requested kind
    }
    if !representation_compatible(w, r) {
        m |= bit(DATA_REPRESENTATION_QOS_POLICY_ID);
    }
    m
}

// ---- regions of two defects found by these checks and repaired (fixed: KF-C15-1, KF-C15-2) -------
// They are used ONLY to focus two regression harnesses and as cover witnesses; no assertion is
// weakened by them.
/// Region of the repaired KF-C15-1 (liveliness used to be compared by the derived lexicographic
/// `PartialOrd`): kinds equal and leases differ, or offered kind above the requested kind and
/// offered lease longer than the requested lease.
fn trigger_liveliness(w: &DataWriterQos, r: &DataReaderQos) -> bool {
    let ok = sq::liveliness_rank(w.liveliness.kind);
    let rk = sq::liveliness_rank(r.liveliness.kind);
    (ok == rk && w.liveliness.lease_duration != r.liveliness.lease_duration)
        || (ok > rk && !sq::dur_le(&w.liveliness.lease_duration, &r.liveliness.lease_duration))
}
/// Region of the repaired KF-C15-2 (flags used to be compared with `!=`): presentation is compatible
/// per the table (everything requested is offered) but the publisher offers coherent_access or
/// ordered_access that the subscriber did not request.
fn trigger_presentation(p: &PublisherQos, s: &SubscriberQos) -> bool {
    presentation_compatible(p, s)
        && ((p.presentation.coherent_access && !s.presentation.coherent_access)
            || (p.presentation.ordered_access && !s.presentation.ordered_access))
}

// ---- observation of the real result --------------------------------------------------------------
/// (bit mask of the reported ids, number of entries, every entry is a valid RxO policy id)
fn observe(list: &Vec<QosPolicyId>) -> (u32, usize, bool) {
    let mut m = 0u32;
    let mut n = 0usize;
    let mut valid = list.len() <= 9;
    let mut i = 0;
    while i < 9 {
        if i < list.len() {
            let id = list[i];
            if id >= 0 && id < 32 && (RXO_BITS & (1u32 << id)) != 0 {
                m |= 1u32 << id;
            } else {
                valid = false;
            }
            n += 1;
        }
        i += 1;
    }
    (m, n, valid)
}
fn popcount(m: u32) -> usize {
    m.count_ones() as usize
}

struct Verdicts {
    writer_side: (u32, usize, bool),
    reader_side: (u32, usize, bool),
}
/// Runs BOTH real functions on the same pair.
fn run_both(w: &DataWriterQos, p: &PublisherQos, r: &DataReaderQos, s: &SubscriberQos) -> Verdicts {
    // writer side: local writer + publisher vs. the reader's announcement
    let sub = sq::subscription_of(r, s);
    let l1 = hooks::reader_incompatible_qos(w, &sub, p);
    // reader side: local reader + subscriber vs. the writer's announcement
    let publ = sq::publication_of(w, p);
    let reader = sq::local_reader(r.clone());
    let l2 = hooks::writer_incompatible_qos(&reader, &publ, s);
    let v = Verdicts { writer_side: observe(&l1), reader_side: observe(&l2) };
    core::mem::forget((sub, publ, reader, l1, l2));
    v
}

/// The whole obligation for one (writer, publisher, reader, subscriber) QoS quadruple.
fn check_pair(w: &DataWriterQos, p: &PublisherQos, r: &DataReaderQos, s: &SubscriberQos) -> (u32, u32, bool, bool) {
    let expect = table(w, p, r, s);
    let t1 = trigger_liveliness(w, r);
    let t2 = trigger_presentation(p, s);
    let v = run_both(w, p, r, s);
    let (m1, n1, valid1) = v.writer_side;
    let (m2, n2, valid2) = v.reader_side;

    // well-formed lists: only RxO policy ids, each at most once
    assert!(valid1 && n1 == popcount(m1), "C15: writer-side list holds only RxO policy ids, each once");
    assert!(valid2 && n2 == popcount(m2), "C15: reader-side list holds only RxO policy ids, each once");
    // both sides: same verdict, same offending policies
    assert!((n1 == 0) == (n2 == 0), "C15: writer side and reader side reach the same match verdict");
    assert!(m1 == m2, "C15: writer side and reader side name the same offending policies");

    // every policy against the table
    let diff = m1 ^ expect;
    assert!(diff & bit(DURABILITY_QOS_POLICY_ID) == 0, "C15: durability verdict equals the DDS table");
    assert!(diff & bit(PRESENTATION_QOS_POLICY_ID) == 0, "C15: presentation verdict equals the DDS table");
    assert!(diff & bit(DEADLINE_QOS_POLICY_ID) == 0, "C15: deadline verdict equals the DDS table");
    assert!(diff & bit(LATENCYBUDGET_QOS_POLICY_ID) == 0, "C15: latency budget verdict equals the DDS table");
    assert!(diff & bit(LIVELINESS_QOS_POLICY_ID) == 0, "C15: liveliness verdict equals the DDS table (kind and lease duration separately)");
    assert!(diff & bit(RELIABILITY_QOS_POLICY_ID) == 0, "C15: reliability verdict equals the DDS table");
    assert!(diff & bit(DESTINATIONORDER_QOS_POLICY_ID) == 0, "C15: destination order verdict equals the DDS table");
    assert!(diff & bit(OWNERSHIP_QOS_POLICY_ID) == 0, "C15: ownership verdict equals the DDS table");
    assert!(diff & bit(DATA_REPRESENTATION_QOS_POLICY_ID) == 0, "C15: data representation verdict equals the DDS table");
    assert!((expect != 0) == (n1 != 0), "C15: incompatible per the table <=> non-empty list");
    assert!(m1 == expect && m2 == expect, "C15: the list names exactly the offending policies");
    (m1, expect, t1, t2)
}

// Each symbolic policy adds one conditional `Vec::push` to both real functions; CBMC has to keep
// the grow/realloc path of every later push feasible, so the cost grows steeply with the number of
// policies that are symbolic at once (4 at once: 170 s / 4 M SAT variables; all 9: > 16 GB).  The
// quick tier therefore covers the nine policies in groups of two or three that are symbolic
// together (the real functions test each policy in its own independent `if`); the thorough tier
// adds larger groups.

// @check props=C15 tier=quick
// @desc group 1 (durability, deadline, latency budget symbolic on both sides): both real compatibility functions (writer side and reader side) report exactly the set of policies that the DDS 1.4 §2.2.3 table calls incompatible (incompatible <=> non-empty list; no foreign id, no duplicate), and both sides reach the same verdict and the same policy set
// @bounds none on the scalars of the group: 4 durability kinds, deadline period and latency budget Infinite or Finite(any i32 sec, any nanosec < 10^9), each on both sides; the other RxO policies at their defaults. unwind 10 = 9 list entries + 1
// @assume nanosec < 10^9 (Duration::new normalizes)
// @enc dcps::dcps_domain_participant::discovery_methods::get_discovered_reader_incompatible_qos_policy_list
// @enc dcps::dcps_domain_participant::discovery_methods::get_discovered_writer_incompatible_qos_policy_list
// @enc infrastructure::qos_policy (PartialOrd impls of the policy kinds / policies)
// @enc infrastructure::time::DurationKind::partial_cmp
#[kani::proof]
#[kani::unwind(10)]
fn c15_rxo_group1_durability_deadline_latency() {
    let mut w = DataWriterQos::const_default();
    let mut r = DataReaderQos::const_default();
    w.durability.kind = sq::any_durability();
    r.durability.kind = sq::any_durability();
    w.deadline.period = sq::any_duration_kind();
    r.deadline.period = sq::any_duration_kind();
    w.latency_budget.duration = sq::any_duration_kind();
    r.latency_budget.duration = sq::any_duration_kind();
    let p = PublisherQos::const_default();
    let s = SubscriberQos::const_default();

    let (m1, expect, _t1, _t2) = check_pair(&w, &p, &r, &s);

    kani::cover!(expect == 0 && m1 == 0, "fully compatible pair");
    kani::cover!(m1 == (bit(DURABILITY_QOS_POLICY_ID) | bit(DEADLINE_QOS_POLICY_ID) | bit(LATENCYBUDGET_QOS_POLICY_ID)), "all three policies of the group incompatible at once");
    kani::cover!(m1 == bit(DEADLINE_QOS_POLICY_ID) && r.deadline.period != crate::infrastructure::time::DurationKind::Infinite && w.deadline.period != crate::infrastructure::time::DurationKind::Infinite, "only deadline incompatible, both finite");
    kani::cover!(m1 == bit(LATENCYBUDGET_QOS_POLICY_ID), "only latency budget incompatible");
    kani::cover!(m1 == bit(DURABILITY_QOS_POLICY_ID), "only durability incompatible");
    kani::cover!(expect == 0 && w.deadline.period == r.deadline.period && w.deadline.period != crate::infrastructure::time::DurationKind::Infinite, "equal finite deadlines are compatible");
    core::mem::forget((w, r, p, s));
}

// @check props=C15 tier=quick
// @desc group 2 (liveliness kind + lease, presentation scope + coherent + ordered symbolic on both sides): exact offending set per the DDS table on both sides (liveliness: offered kind >= requested kind AND offered lease <= requested lease, separately; presentation: requested flag FALSE or both TRUE) and agreement of the two sides - asserted everywhere, including the regions of the two defects these checks found and that were repaired (fixed: KF-C15-1, KF-C15-2)
// @bounds none on the scalars of the group: 3 liveliness kinds, lease Infinite or Finite(any i32 sec, any nanosec < 10^9), 2 access scopes x coherent x ordered, each on both sides; the other policies at their defaults. unwind 10
// @assume nanosec < 10^9 (Duration::new normalizes)
// @enc dcps::dcps_domain_participant::discovery_methods::get_discovered_reader_incompatible_qos_policy_list
// @enc dcps::dcps_domain_participant::discovery_methods::get_discovered_writer_incompatible_qos_policy_list
// @enc infrastructure::qos_policy (PartialOrd impls of the policy kinds / policies)
#[kani::proof]
#[kani::unwind(10)]
fn c15_rxo_group2_liveliness_presentation() {
    let mut w = DataWriterQos::const_default();
    let mut r = DataReaderQos::const_default();
    w.liveliness.kind = sq::any_liveliness();
    w.liveliness.lease_duration = sq::any_duration_kind();
    r.liveliness.kind = sq::any_liveliness();
    r.liveliness.lease_duration = sq::any_duration_kind();
    let mut p = PublisherQos::const_default();
    p.presentation = sq::any_presentation();
    let mut s = SubscriberQos::const_default();
    s.presentation = sq::any_presentation();

    let (m1, expect, t1, t2) = check_pair(&w, &p, &r, &s);

    kani::cover!(expect == 0 && m1 == 0, "fully compatible pair");
    kani::cover!(m1 == (bit(LIVELINESS_QOS_POLICY_ID) | bit(PRESENTATION_QOS_POLICY_ID)), "both policies of the group incompatible at once");
    kani::cover!(m1 == bit(LIVELINESS_QOS_POLICY_ID) && sq::liveliness_rank(w.liveliness.kind) < sq::liveliness_rank(r.liveliness.kind), "only liveliness incompatible: offered kind below requested kind");
    kani::cover!(t1 && m1 == bit(LIVELINESS_QOS_POLICY_ID), "only liveliness incompatible: offered lease longer than requested (region of the repaired KF-C15-1)");
    kani::cover!(t1 && expect == 0 && m1 == 0, "equal kinds, shorter offered lease: compatible (region of the repaired KF-C15-1)");
    kani::cover!(expect == 0 && sq::liveliness_rank(w.liveliness.kind) > sq::liveliness_rank(r.liveliness.kind), "stronger offered liveliness kind with a lease not longer than requested");
    kani::cover!(m1 == bit(PRESENTATION_QOS_POLICY_ID), "only presentation incompatible");
    kani::cover!(t2 && expect == 0 && m1 == 0, "offered but not requested coherent/ordered access: compatible (region of the repaired KF-C15-2)");
    core::mem::forget((w, r, p, s));
}

// @check props=C15 tier=quick
// @desc group 3 (reliability, destination order, ownership kinds symbolic on both sides): exact offending set per the DDS table on both sides and agreement of the two sides
// @bounds all 2 x 2 reliability, 2 x 2 destination-order, 2 x 2 ownership kind pairs; the other policies at their defaults. unwind 10
// @enc dcps::dcps_domain_participant::discovery_methods::get_discovered_reader_incompatible_qos_policy_list
// @enc dcps::dcps_domain_participant::discovery_methods::get_discovered_writer_incompatible_qos_policy_list
#[kani::proof]
#[kani::unwind(10)]
fn c15_rxo_group3_reliability_order_ownership() {
    let mut w = DataWriterQos::const_default();
    let mut r = DataReaderQos::const_default();
    w.reliability.kind = sq::any_reliability();
    r.reliability.kind = sq::any_reliability();
    w.destination_order.kind = sq::any_destination_order();
    r.destination_order.kind = sq::any_destination_order();
    w.ownership.kind = sq::any_ownership();
    r.ownership.kind = sq::any_ownership();
    let p = PublisherQos::const_default();
    let s = SubscriberQos::const_default();

    let (m1, expect, _t1, _t2) = check_pair(&w, &p, &r, &s);

    kani::cover!(expect == 0 && m1 == 0, "fully compatible pair");
    kani::cover!(m1 == (bit(RELIABILITY_QOS_POLICY_ID) | bit(DESTINATIONORDER_QOS_POLICY_ID) | bit(OWNERSHIP_QOS_POLICY_ID)), "all three policies of the group incompatible at once");
    kani::cover!(m1 == bit(OWNERSHIP_QOS_POLICY_ID), "only ownership incompatible");
    kani::cover!(m1 == bit(DESTINATIONORDER_QOS_POLICY_ID), "only destination order incompatible");
    kani::cover!(m1 == bit(RELIABILITY_QOS_POLICY_ID), "only reliability incompatible");
    core::mem::forget((w, r, p, s));
}

// @check props=C15 tier=thorough timeout=1800
// @desc cross-group obligation: durability, deadline, reliability and ownership symbolic at once on both sides (four conditional pushes): exact offending set, both sides agree
// @bounds 4 durability kinds, deadline Infinite or Finite(any i32 sec, any nanosec < 10^9), 2 reliability, 2 ownership kinds on both sides; others default. unwind 10
// @assume nanosec < 10^9
// @enc dcps::dcps_domain_participant::discovery_methods::get_discovered_reader_incompatible_qos_policy_list
// @enc dcps::dcps_domain_participant::discovery_methods::get_discovered_writer_incompatible_qos_policy_list
#[kani::proof]
#[kani::unwind(10)]
fn c15_rxo_cross_a() {
    let mut w = DataWriterQos::const_default();
    let mut r = DataReaderQos::const_default();
    w.durability.kind = sq::any_durability();
    r.durability.kind = sq::any_durability();
    w.deadline.period = sq::any_duration_kind();
    r.deadline.period = sq::any_duration_kind();
    w.reliability.kind = sq::any_reliability();
    r.reliability.kind = sq::any_reliability();
    w.ownership.kind = sq::any_ownership();
    r.ownership.kind = sq::any_ownership();
    let p = PublisherQos::const_default();
    let s = SubscriberQos::const_default();
    let (m1, expect, _t1, _t2) = check_pair(&w, &p, &r, &s);
    kani::cover!(expect == 0 && m1 == 0, "fully compatible pair");
    kani::cover!(m1 == (bit(DURABILITY_QOS_POLICY_ID) | bit(DEADLINE_QOS_POLICY_ID) | bit(RELIABILITY_QOS_POLICY_ID) | bit(OWNERSHIP_QOS_POLICY_ID)), "all four incompatible at once");
    core::mem::forget((w, r, p, s));
}

// @check props=C15 tier=thorough timeout=1800
// @desc cross-group obligation: liveliness, latency budget, destination order and presentation symbolic at once on both sides (four conditional pushes): exact offending set, both sides agree
// @bounds 3 liveliness kinds, lease and latency budget Infinite or Finite(any i32 sec, any nanosec < 10^9), 2 destination-order kinds, presentation scope x coherent x ordered on both sides; others default. unwind 10
// @assume nanosec < 10^9 (Duration::new normalizes)
// @enc dcps::dcps_domain_participant::discovery_methods::get_discovered_reader_incompatible_qos_policy_list
// @enc dcps::dcps_domain_participant::discovery_methods::get_discovered_writer_incompatible_qos_policy_list
#[kani::proof]
#[kani::unwind(10)]
fn c15_rxo_cross_b() {
    let mut w = DataWriterQos::const_default();
    let mut r = DataReaderQos::const_default();
    w.liveliness.kind = sq::any_liveliness();
    w.liveliness.lease_duration = sq::any_duration_kind();
    r.liveliness.kind = sq::any_liveliness();
    r.liveliness.lease_duration = sq::any_duration_kind();
    w.latency_budget.duration = sq::any_duration_kind();
    r.latency_budget.duration = sq::any_duration_kind();
    w.destination_order.kind = sq::any_destination_order();
    r.destination_order.kind = sq::any_destination_order();
    let mut p = PublisherQos::const_default();
    p.presentation = sq::any_presentation();
    let mut s = SubscriberQos::const_default();
    s.presentation = sq::any_presentation();
    let (m1, expect, t1, t2) = check_pair(&w, &p, &r, &s);
    kani::cover!(expect == 0 && m1 == 0 && (t1 || t2), "fully compatible pair inside a repaired-defect region");
    kani::cover!(m1 == (bit(LIVELINESS_QOS_POLICY_ID) | bit(LATENCYBUDGET_QOS_POLICY_ID) | bit(DESTINATIONORDER_QOS_POLICY_ID) | bit(PRESENTATION_QOS_POLICY_ID)), "all four incompatible at once");
    core::mem::forget((w, r, p, s));
}

/// One (writer list length, reader list length) case with CONCRETE lengths and symbolic ids.
/// Returns (reported mask, table mask, writer ids a b, reader ids c d).
fn representation_case(wn: usize, rn: usize) -> (u32, u32, u16, u16, u16, u16) {
    let mut w = DataWriterQos::const_default();
    let mut r = DataReaderQos::const_default();
    let (a, b, c, d): (u16, u16, u16, u16) = (kani::any(), kani::any(), kani::any(), kani::any());
    w.representation.value = match wn {
        0 => Vec::new(),
        1 => alloc::vec![a],
        _ => alloc::vec![a, b],
    };
    r.representation.value = match rn {
        0 => Vec::new(),
        1 => alloc::vec![c],
        _ => alloc::vec![c, d],
    };
    let p = PublisherQos::const_default();
    let s = SubscriberQos::const_default();
    let (m1, expect, _t1, _t2) = check_pair(&w, &p, &r, &s);
    core::mem::forget((w, r, p, s));
    (m1, expect, a, b, c, d)
}

// @check props=C15 tier=quick
// @desc group 4 (data representation): for pairs of representation lists (writer offers its first entry or XCDR if empty; reader accepts any entry, empty = [XCDR]) both real functions report exactly the incompatible policies of the table and agree with each other
// @bounds representation list length pairs (writer, reader) = (0,0), (1,0), (0,1), (1,2), (2,1) - concrete lengths per case, any u16 ids; the remaining pairs (1,1), (0,2), (2,0), (2,2) are in the thorough tier; all other policies default. unwind 10
// @enc dcps::dcps_domain_participant::discovery_methods::get_discovered_reader_incompatible_qos_policy_list
// @enc dcps::dcps_domain_participant::discovery_methods::get_discovered_writer_incompatible_qos_policy_list
#[kani::proof]
#[kani::unwind(10)]
fn c15_rxo_group4_representation() {
    let (m, e, _, _, _, _) = representation_case(0, 0);
    kani::cover!(e == 0 && m == 0, "both lists empty: XCDR matches XCDR");
    let (m, _e, a, _, _, _) = representation_case(1, 0);
    kani::cover!(m == bit(DATA_REPRESENTATION_QOS_POLICY_ID), "non-XCDR offer against an empty reader list");
    kani::cover!(m == 0 && a == XCDR_DATA_REPRESENTATION, "explicit XCDR offer against an empty reader list");
    let (m, _e, _, _, _, _) = representation_case(0, 1);
    kani::cover!(m == bit(DATA_REPRESENTATION_QOS_POLICY_ID), "implicit XCDR offer against a reader without XCDR");
    let (m, e, a, _, c, d) = representation_case(1, 2);
    kani::cover!(m == bit(DATA_REPRESENTATION_QOS_POLICY_ID), "only representation incompatible, reader list of two");
    kani::cover!(e == 0 && d == a && c != a, "offer matched by the reader's second entry");
    let (m, e, _a, b, c, _) = representation_case(2, 1);
    kani::cover!(e == 0 && b != c, "writer's first entry is the offer (second entry not accepted by the reader)");
    kani::cover!(m == bit(DATA_REPRESENTATION_QOS_POLICY_ID) && b == c, "writer's second entry is not offered");
}

// @check props=C15 tier=thorough timeout=1800
// @desc group 4 (data representation), remaining list length pairs
// @bounds representation list length pairs (writer, reader) = (1,1), (0,2), (2,0), (2,2), any u16 ids; all other policies default. unwind 10
// @enc dcps::dcps_domain_participant::discovery_methods::get_discovered_reader_incompatible_qos_policy_list
// @enc dcps::dcps_domain_participant::discovery_methods::get_discovered_writer_incompatible_qos_policy_list
#[kani::proof]
#[kani::unwind(10)]
fn c15_rxo_group4_representation_b() {
    let (m, e, a, _, c, _) = representation_case(1, 1);
    kani::cover!(e == 0 && m == 0 && a == c && a != XCDR_DATA_REPRESENTATION, "equal non-XCDR single entries match");
    let (m, _e, _, _, c, d) = representation_case(0, 2);
    kani::cover!(m == 0 && c != XCDR_DATA_REPRESENTATION && d == XCDR_DATA_REPRESENTATION, "implicit XCDR offer matched by the reader's second entry");
    let (m, _e, _a, b, _, _) = representation_case(2, 0);
    kani::cover!(m == bit(DATA_REPRESENTATION_QOS_POLICY_ID) && b == XCDR_DATA_REPRESENTATION, "XCDR as the writer's second entry is not offered to an empty reader list");
    let (m, e, a, b, c, d) = representation_case(2, 2);
    kani::cover!(e == 0 && m == 0 && a == d && a != c, "first of two matched by second of two");
    kani::cover!(m == bit(DATA_REPRESENTATION_QOS_POLICY_ID) && (b == c || b == d), "only the writer's second entry would match");
}

// @check props=C15 tier=quick
// @desc regression obligation for the repaired KF-C15-1, focused on its region (equal liveliness kinds with different lease durations, or offered kind above the requested kind with a longer offered lease): the liveliness verdict of both real functions equals the DDS table (offered kind >= requested kind AND offered lease <= requested lease)
// @bounds liveliness kind (3 values) and lease duration (Infinite or Finite(any i32, any nanosec < 10^9)) symbolic on both sides; all other policies default. unwind 10
// @assume focus region: (kinds equal and leases differ) or (offered kind > requested kind and offered lease > requested lease); the complement is covered by c15_rxo_group2_liveliness_presentation, which asserts the same oracle without this restriction
// @enc dcps::dcps_domain_participant::discovery_methods::get_discovered_reader_incompatible_qos_policy_list
// @enc dcps::dcps_domain_participant::discovery_methods::get_discovered_writer_incompatible_qos_policy_list
// @enc infrastructure::qos_policy::LivelinessQosPolicyKind::partial_cmp
#[kani::proof]
#[kani::unwind(10)]
fn c15_liveliness_lease() {
    let mut w = DataWriterQos::const_default();
    let mut r = DataReaderQos::const_default();
    w.liveliness.kind = sq::any_liveliness();
    w.liveliness.lease_duration = sq::any_duration_kind();
    r.liveliness.kind = sq::any_liveliness();
    r.liveliness.lease_duration = sq::any_duration_kind();
    // default writer is RELIABLE, default reader BEST_EFFORT: every other policy is compatible
    let p = PublisherQos::const_default();
    let s = SubscriberQos::const_default();
    kani::assume(trigger_liveliness(&w, &r));
    let expect = table(&w, &p, &r, &s);
    let v = run_both(&w, &p, &r, &s);
    kani::cover!(expect == 0, "compatible pair in the region (equal kinds, shorter offered lease)");
    kani::cover!(expect != 0, "incompatible pair in the region (longer offered lease)");
    assert!(v.writer_side.0 == expect, "C15: liveliness verdict equals the DDS table (kind and lease duration separately), writer side");
    assert!(v.reader_side.0 == expect, "C15: liveliness verdict equals the DDS table (kind and lease duration separately), reader side");
    core::mem::forget((w, r, p, s));
}

// @check props=C15 tier=quick
// @desc regression obligation for the repaired KF-C15-2, focused on its region (everything the subscriber requests is offered, and the publisher additionally offers coherent_access or ordered_access that was not requested): both real functions report the pair compatible (DDS 2.2.3.6: requested flag FALSE, or both TRUE)
// @bounds access scope x coherent x ordered symbolic on both sides; all other policies default. unwind 10
// @assume focus region: presentation compatible per the table and (offered coherent and not requested, or offered ordered and not requested); unrestricted in c15_rxo_group2_liveliness_presentation
// @enc dcps::dcps_domain_participant::discovery_methods::get_discovered_reader_incompatible_qos_policy_list
// @enc dcps::dcps_domain_participant::discovery_methods::get_discovered_writer_incompatible_qos_policy_list
#[kani::proof]
#[kani::unwind(10)]
fn c15_presentation_flags() {
    let w = DataWriterQos::const_default();
    let r = DataReaderQos::const_default();
    let mut p = PublisherQos::const_default();
    p.presentation = sq::any_presentation();
    let mut s = SubscriberQos::const_default();
    s.presentation = sq::any_presentation();
    kani::assume(trigger_presentation(&p, &s));
    let expect = table(&w, &p, &r, &s);
    let v = run_both(&w, &p, &r, &s);
    kani::cover!(expect == 0, "region reachable: compatible per the table");
    assert!(v.writer_side.0 == expect, "C15: presentation verdict equals the DDS table (offered-but-not-requested flags are compatible), writer side");
    assert!(v.reader_side.0 == expect, "C15: presentation verdict equals the DDS table (offered-but-not-requested flags are compatible), reader side");
    core::mem::forget((w, r, p, s));
}

