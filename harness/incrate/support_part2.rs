// Shared fixture of the participant-level timing/status harnesses (C27, C28, C29, C30, C33).
//
// A REAL DcpsDomainParticipant (support_participant::participant) into which one topic, one
// publisher/subscriber and one data writer/reader are INSTALLED DIRECTLY (every field involved is `pub`),
// in the state the real `create_topic` / `create_user_defined_publisher|subscriber` /
// `create_data_writer|reader` + `enable` calls give them (constructor arguments and handle formulas
// mirrored from participant_methods.rs / publisher_methods.rs / subscriber_methods.rs). Going through the
// real create_* calls does not fit the solver budget (HARNESS_GUIDE: create_data_writer/reader run out of
// memory; topic + publisher + subscriber alone is > 4 min) and none of them is code under test here.
//
// Listener senders are real `mpsc_channel::<ListenerMail>()` senders: what the code under test "sends to a
// listener" stays queued in the real channel and is read back by polling the real receiver.
use alloc::string::String;
use alloc::vec::Vec;
use core::future::Future;
use core::task::{Context, Poll, Waker};

use super::support_participant as sp;
use crate::dcps::channels::mpsc::{mpsc_channel, MpscReceiver, MpscSender};
use crate::dcps::dcps_domain_participant::data_reader_entity::{InstanceOwnership, InstanceState};
use crate::dcps::dcps_domain_participant::data_writer_entity::RegisteredInstanceInfo;
use crate::dcps::dcps_domain_participant::participant_entity::DcpsDomainParticipant;
use crate::dcps::dcps_domain_participant::topic_entity::TopicEntity;
use crate::dcps::dcps_domain_participant::user_defined_data_reader::UserDefinedDataReader;
use crate::dcps::dcps_domain_participant::user_defined_data_writer::UserDefinedDataWriter;
use crate::dcps::dcps_domain_participant::user_defined_publisher::PublisherEntity;
use crate::dcps::dcps_domain_participant::user_defined_subscriber::UserDefinedSubscriber;
use crate::dcps::listeners::domain_participant_listener::ListenerMail;
use crate::dcps::status_condition::DcpsStatusCondition;
use crate::dcps::status_mask::StatusMask;
use crate::infrastructure::instance::InstanceHandle;
use crate::infrastructure::qos::{DataReaderQos, DataWriterQos, PublisherQos, SubscriberQos, TopicQos};
use crate::infrastructure::sample_info::{InstanceStateKind, ViewStateKind};
use crate::infrastructure::status::{InconsistentTopicStatus, StatusKind};
use crate::infrastructure::time::{Duration, Time};
use crate::rtps::stateful_reader::RtpsStatefulReader;
use crate::rtps::stateful_writer::RtpsStatefulWriter;
use crate::transport::types::{
    EntityId, Guid, ReliabilityKind, USER_DEFINED_READER_GROUP, USER_DEFINED_READER_NO_KEY, USER_DEFINED_TOPIC,
    USER_DEFINED_WRITER_GROUP, USER_DEFINED_WRITER_NO_KEY,
};
use crate::xtypes::type_support::Type;

pub const TOPIC_NAME: &str = "A";
pub const TYPE_NAME: &str = "T";

const fn handle(tail: [u8; 4]) -> InstanceHandle {
    let p = sp::PREFIX;
    InstanceHandle::new([
        p[0], p[1], p[2], p[3], p[4], p[5], p[6], p[7], p[8], p[9], p[10], p[11], tail[0], tail[1], tail[2], tail[3],
    ])
}
/// Handles of the first entity of each kind, as the create_* functions compute them (counters 0).
pub const TOPIC_H: InstanceHandle = handle([0, 0, 0, USER_DEFINED_TOPIC]);
pub const PUB_H: InstanceHandle = handle([0, 0, 0, USER_DEFINED_WRITER_GROUP]);
pub const SUB_H: InstanceHandle = handle([0, 0, 0, USER_DEFINED_READER_GROUP]);
pub const WRITER_H: InstanceHandle = handle([0, 0, 0, USER_DEFINED_WRITER_NO_KEY]);
pub const READER_H: InstanceHandle = handle([0, 0, 0, USER_DEFINED_READER_NO_KEY]);
/// The instance handle of the single instance of a keyless topic (all zero key hash).
pub const INSTANCE_H: InstanceHandle = InstanceHandle::new([0; 16]);
/// A second instance (keyed topics), used where two instances are needed.
pub const INSTANCE2_H: InstanceHandle = InstanceHandle::new([9; 16]);
/// A remote writer (owner of received instances).
pub const REMOTE_WRITER: [u8; 16] = [7, 7, 7, 7, 7, 7, 7, 7, 7, 7, 7, 7, 0, 0, 1, USER_DEFINED_WRITER_NO_KEY];

pub type Tx = MpscSender<ListenerMail>;
pub type Rx = MpscReceiver<ListenerMail>;

pub fn listener_channel() -> (Tx, Rx) {
    mpsc_channel::<ListenerMail>()
}

/// One poll of the real mpsc receiver with a no-op waker: `Some(mail)` if a mail is queued.
pub fn try_recv(rx: &Rx) -> Option<ListenerMail> {
    let mut cx = Context::from_waker(Waker::noop());
    let fut = core::pin::pin!(rx.receive());
    match fut.poll(&mut cx) {
        Poll::Ready(Some(m)) => Some(m),
        _ => None,
    }
}

/// What a harness needs to know about a queued listener mail (the mail itself is forgotten: its
/// DataReaderAsync/DataWriterAsync handles own Strings whose drop glue is outside every claim).
#[derive(Clone, Copy, PartialEq, Eq)]
pub enum MailKind {
    RequestedDeadlineMissed { total_count: i32, total_count_change: i32 },
    OfferedDeadlineMissed { total_count: i32, total_count_change: i32 },
    SampleRejected { total_count: i32, total_count_change: i32 },
    SubscriptionMatched { current_count: i32 },
    PublicationMatched { current_count: i32 },
    Other,
}

pub fn classify(m: ListenerMail) -> MailKind {
    let k = match &m {
        ListenerMail::RequestedDeadlineMissed { status, .. } => MailKind::RequestedDeadlineMissed {
            total_count: status.total_count,
            total_count_change: status.total_count_change,
        },
        ListenerMail::OfferedDeadlineMissed { status, .. } => MailKind::OfferedDeadlineMissed {
            total_count: status.total_count,
            total_count_change: status.total_count_change,
        },
        ListenerMail::SampleRejected { status, .. } => MailKind::SampleRejected {
            total_count: status.total_count,
            total_count_change: status.total_count_change,
        },
        ListenerMail::SubscriptionMatched { status, .. } => MailKind::SubscriptionMatched { current_count: status.current_count },
        ListenerMail::PublicationMatched { status, .. } => MailKind::PublicationMatched { current_count: status.current_count },
        _ => MailKind::Other,
    };
    core::mem::forget(m);
    k
}

/// Number of queued mails (0, 1, 2 = "two or more") and the first two, oldest first.
pub fn drain2(rx: &Rx) -> (u8, Option<MailKind>, Option<MailKind>) {
    let a = try_recv(rx).map(classify);
    if a.is_none() {
        return (0, None, None);
    }
    let b = try_recv(rx).map(classify);
    if b.is_none() {
        return (1, a, None);
    }
    (2, a, b)
}

/// A mask with exactly `kind` enabled iff `on` (loop of one iteration; every other status disabled).
pub fn mask_one(kind: StatusKind, on: bool) -> StatusMask {
    if on {
        [kind].iter().collect()
    } else {
        StatusMask::default()
    }
}

// ---- symbolic time values -------------------------------------------------------------------------
// Small value grid: seconds 0..=SEC_MAX, nanoseconds in {0, 1, 5*10^8, 10^9-1}. The code under test only
// compares, adds and subtracts times; the grid contains every ordering, every equality and every nanosecond
// carry/borrow case (1 + (10^9-1), 5*10^8 + 5*10^8, 0 - 1 ...). A full-range nanosecond makes the SAT problem
// the 64-bit divide-by-10^9 equivalence that CBMC cannot decide (measured: c29_expired_at_write on a local
// DataWriterEntity, > 600 s in the SAT solver; DESIGN.md P-j) — the arithmetic over the full domain is C14's
// subject (MIR->SMT engine).
pub const SEC_MAX: i32 = 7;
fn any_nanosec() -> u32 {
    let k: u8 = kani::any();
    match k & 3 {
        0 => 0,
        1 => 1,
        2 => 500_000_000,
        _ => 999_999_999,
    }
}
pub fn any_time() -> Time {
    let sec: i32 = kani::any();
    kani::assume(sec >= 0 && sec <= SEC_MAX);
    Time::new(sec, any_nanosec())
}
pub fn any_duration() -> Duration {
    let sec: i32 = kani::any();
    kani::assume(sec >= 0 && sec <= SEC_MAX);
    Duration::new(sec, any_nanosec())
}

// ---- entity installation --------------------------------------------------------------------------
/// Topic "A" of type name "T", keyless type (`infrastructure::time::Duration`), enabled.
/// Built as a struct literal: `TopicEntity::new` computes `TypeInformation::from(DynamicType)` (MD5 over the
/// XTypes-serialized type objects, DynamicData: not encodable). The type-information VALUE stored here is the
/// placeholder of support_participant::type_information_stub; no function driven by these harnesses reads it.
pub fn install_topic(p: &mut DcpsDomainParticipant) {
    let ts = <Duration as Type>::TYPE;
    let topic = TopicEntity {
        qos: TopicQos::default(),
        type_name: String::from(TYPE_NAME),
        topic_name: String::from(TOPIC_NAME),
        instance_handle: TOPIC_H,
        enabled: true,
        inconsistent_topic_status: InconsistentTopicStatus::const_default(),
        status_condition: DcpsStatusCondition::default(),
        listener_sender: None,
        listener_mask: StatusMask::default(),
        type_support: ts,
        type_information: sp::type_information_stub(ts),
        discovered_type_representation: Vec::new(),
    };
    p.domain_participant.locally_created_topic_list = alloc::vec![topic];
    p.domain_participant.topic_counter = 1;
}

/// Subscriber 0 (enabled) with listener sender/mask, as create_user_defined_subscriber + enable, holding the
/// given readers. Lists are built with `vec![..]` (exact allocation, no amortized-growth path) so that
/// symbolic execution sees concrete buffer addresses.
pub fn install_subscriber(p: &mut DcpsDomainParticipant, tx: Option<Tx>, mask: StatusMask, readers: Vec<UserDefinedDataReader>) {
    let mut s = UserDefinedSubscriber::new(SUB_H, SubscriberQos::default(), tx, mask);
    s.enabled = true;
    p.reader_counter = readers.len() as u16;
    s.data_reader_list = readers;
    p.domain_participant.user_defined_subscriber_list = alloc::vec![s];
    p.subscriber_counter = 1;
}

/// Publisher 0 (enabled) with listener sender/mask, as create_user_defined_publisher + enable, holding the
/// given writers.
pub fn install_publisher(p: &mut DcpsDomainParticipant, tx: Option<Tx>, mask: StatusMask, writers: Vec<UserDefinedDataWriter>) {
    p.writer_counter = writers.len() as u16;
    let mut s = PublisherEntity::new(PublisherQos::default(), PUB_H, writers, tx, mask);
    s.enabled = true;
    p.domain_participant.user_defined_publisher_list = alloc::vec![s];
    p.publisher_counter = 1;
}

pub fn reader_guid() -> Guid {
    Guid::new(sp::PREFIX, EntityId::new([0, 0, 0], USER_DEFINED_READER_NO_KEY))
}
pub fn writer_guid() -> Guid {
    Guid::new(sp::PREFIX, EntityId::new([0, 0, 0], USER_DEFINED_WRITER_NO_KEY))
}

/// Reader 0 of subscriber 0 on topic "A" (enabled), as create_data_reader + enable build it.
pub fn new_reader(qos: DataReaderQos, tx: Option<Tx>, mask: StatusMask) -> UserDefinedDataReader {
    let rel = match qos.reliability.kind {
        crate::infrastructure::qos_policy::ReliabilityQosPolicyKind::BestEffort => ReliabilityKind::BestEffort,
        crate::infrastructure::qos_policy::ReliabilityQosPolicyKind::Reliable => ReliabilityKind::Reliable,
    };
    let mut r = UserDefinedDataReader::new(
        READER_H,
        qos,
        String::from(TOPIC_NAME),
        tx,
        mask,
        RtpsStatefulReader::new(reader_guid(), rel),
    );
    r.enabled = true;
    r
}

/// Writer 0 of publisher 0 on topic "A" (enabled), as create_data_writer + enable build it.
pub fn new_writer(qos: DataWriterQos, tx: Option<Tx>, mask: StatusMask) -> UserDefinedDataWriter {
    let mut w = UserDefinedDataWriter::new(
        WRITER_H,
        RtpsStatefulWriter::new(writer_guid(), 1344),
        String::from(TOPIC_NAME),
        tx,
        mask,
        qos,
    );
    w.enabled = true;
    w
}

/// The reader-side record of an instance whose most recent sample was received at `last`
/// (what `add_reader_change(.., reception_timestamp = last)` leaves: InstanceState ALIVE with
/// last_received_time_stamp = last; NotNew/New is irrelevant here).
pub fn reader_instance(h: InstanceHandle, last: Time) -> InstanceState {
    InstanceState::verif_from_parts(h, ViewStateKind::NotNew, InstanceStateKind::Alive, 0, 0, last)
}
pub fn reader_ownership(h: InstanceHandle, last: Time) -> InstanceOwnership {
    InstanceOwnership { instance_handle: h, owner_handle: REMOTE_WRITER, last_received_time: last }
}
/// The writer-side record of an instance last written at `last` (no samples retained).
pub fn writer_instance(h: InstanceHandle, last: Option<Time>) -> RegisteredInstanceInfo {
    RegisteredInstanceInfo { instance_handle: h, last_write_time: last, samples: alloc::collections::VecDeque::new() }
}

// ---- waker stubs ------------------------------------------------------------------------------------
// The only `Waker` these harnesses ever create is `Waker::noop()` (used by `try_recv` to poll the real mpsc
// receiver); its vtable functions wake / wake_by_ref / drop do nothing. The channels and status conditions of
// the participant live in heap-allocated entities whose contents are opaque to CBMC's constant propagation, so
// every `if let Some(w) = waker.take() { w.wake() }` of MpscSender::send / NotificationSender::notify / their
// Drop impls is explored with an unconstrained vtable pointer, i.e. as a call to EVERY address-taken function of
// a compatible signature (measured: ~10 s of symbolic execution per call site, the drop glue of the capturing
// transport among the candidates). These three stubs are exactly the behaviour of the noop waker:
//   #[kani::stub(core::task::wake::Waker::wake, super::support_part2::waker_wake_stub)]
//   #[kani::stub(core::task::wake::Waker::wake_by_ref, super::support_part2::waker_wake_by_ref_stub)]
//   #[kani::stub(<core::task::wake::Waker as core::ops::Drop>::drop, super::support_part2::waker_drop_stub)]
pub fn waker_wake_stub(w: Waker) {
    core::mem::forget(w);
}
pub fn waker_wake_by_ref_stub(_w: &Waker) {}
pub fn waker_drop_stub(_w: &mut Waker) {}

// ---- recorder stubs (assume/guarantee cuts; each use is listed with `@assume stub:`) ------------------
// Log of "observable effects" written by the recorder stubs below.
pub struct EffectLog {
    /// addresses of the MpscSender objects `send` was called on, in call order (first 4)
    pub sends: [usize; 4],
    pub n_sends: usize,
    /// (address of the DcpsStatusCondition, status kind bit) of add_communication_state calls (first 4)
    pub states: [(usize, u16); 4],
    pub n_states: usize,
}
static EFFECTS: critical_section::Mutex<core::cell::RefCell<EffectLog>> =
    critical_section::Mutex::new(core::cell::RefCell::new(EffectLog { sends: [0; 4], n_sends: 0, states: [(0, 0); 4], n_states: 0 }));

/// Recorder for `MpscSender::<T>::send`: notes on WHICH sender object a mail was sent and forgets the mail.
/// The real channel (every sent value is received exactly once, in order) is decided by C34.
///   #[kani::stub(crate::dcps::channels::mpsc::MpscSender::send, super::support_part2::mpsc_send_recorder)]
pub fn mpsc_send_recorder<T>(s: &MpscSender<T>, value: T) -> Result<(), crate::dcps::channels::mpsc::MpscSenderError> {
    let addr = s as *const MpscSender<T> as usize;
    critical_section::with(|cs| {
        let mut l = EFFECTS.borrow(cs).borrow_mut();
        let i = l.n_sends;
        if i < 4 {
            l.sends[i] = addr;
        }
        l.n_sends = i + 1;
    });
    core::mem::forget(value);
    Ok(())
}
pub fn sender_addr<T>(s: &Option<MpscSender<T>>) -> usize {
    match s {
        Some(x) => x as *const MpscSender<T> as usize,
        None => 0,
    }
}

/// Recorder for `DcpsStatusCondition::add_communication_state`: notes which condition got which status.
/// The real status condition (trigger value, waking of attached WaitSets) is decided by C32.
///   #[kani::stub(crate::dcps::status_condition::DcpsStatusCondition::add_communication_state, super::support_part2::add_state_recorder)]
pub fn add_state_recorder(sc: &mut DcpsStatusCondition, state: StatusKind) {
    let addr = sc as *const DcpsStatusCondition as usize;
    let bit = kind_bit(state);
    critical_section::with(|cs| {
        let mut l = EFFECTS.borrow(cs).borrow_mut();
        let i = l.n_states;
        if i < 4 {
            l.states[i] = (addr, bit);
        }
        l.n_states = i + 1;
    });
}
pub fn cond_addr(sc: &DcpsStatusCondition) -> usize {
    sc as *const DcpsStatusCondition as usize
}
pub fn kind_bit(k: StatusKind) -> u16 {
    match k {
        StatusKind::InconsistentTopic => 1 << 0,
        StatusKind::OfferedDeadlineMissed => 1 << 1,
        StatusKind::RequestedDeadlineMissed => 1 << 2,
        StatusKind::OfferedIncompatibleQos => 1 << 3,
        StatusKind::RequestedIncompatibleQos => 1 << 4,
        StatusKind::SampleLost => 1 << 5,
        StatusKind::SampleRejected => 1 << 6,
        StatusKind::DataOnReaders => 1 << 7,
        StatusKind::DataAvailable => 1 << 8,
        StatusKind::LivelinessLost => 1 << 9,
        StatusKind::LivelinessChanged => 1 << 10,
        StatusKind::PublicationMatched => 1 << 11,
        StatusKind::SubscriptionMatched => 1 << 12,
    }
}
pub fn n_sends() -> usize {
    critical_section::with(|cs| EFFECTS.borrow(cs).borrow().n_sends)
}
pub fn send_at(i: usize) -> usize {
    critical_section::with(|cs| EFFECTS.borrow(cs).borrow().sends[i])
}
pub fn n_states() -> usize {
    critical_section::with(|cs| EFFECTS.borrow(cs).borrow().n_states)
}
pub fn state_at(i: usize) -> (usize, u16) {
    critical_section::with(|cs| EFFECTS.borrow(cs).borrow().states[i])
}

/// `alloc::raw_vec::min_non_zero_cap` (first step of amortized Vec/VecDeque growth): faithful copy for every
/// element size except `ListenerMail`'s, for which growth of the 64-slot listener queue is asserted
/// unreachable (a checked obligation, not an assumption; at most a handful of mails are queued per harness).
///   #[kani::stub(alloc::raw_vec::min_non_zero_cap, super::support_part2::min_non_zero_cap_mailq)]
pub fn min_non_zero_cap_mailq(size: usize) -> usize {
    if size == core::mem::size_of::<ListenerMail>() {
        panic!("VERIF: the 64-slot listener mail queue grew")
    }
    if size == 1 {
        8
    } else if size <= 1024 {
        4
    } else {
        1
    }
}

/// Stub for `<String as Clone>::clone`: the deadline/matched/rejected status sites clone the topic and type
/// NAME strings into the DataReaderAsync/DataWriterAsync handle carried by the listener mail. The strings live
/// in heap-allocated entities (opaque to CBMC's constant propagation), so each clone is an allocation and a
/// memcpy of symbolic length through pointers whose value sets contain every byte buffer of the model
/// (measured: the SAT encoding of one check_missed_writer_deadline call ran out of 12 GB). The handle's name
/// strings are in no claim (the recorder stub for MpscSender::send forgets the mail).
///   #[kani::stub(<alloc::string::String as core::clone::Clone>::clone, super::support_part2::string_clone_stub)]
pub fn string_clone_stub(_s: &String) -> String {
    String::new()
}

// ---- "the argument is never touched" as a checked obligation ---------------------------------------
// The instance-management operations of a writer hand their DynamicData argument to exactly two entry points:
// `KeyHolderData::from_dynamic_data` (key extraction) and `data_writer_entity::serialize` (payload). Executing
// either is not encodable (DESIGN.md P-i), and symbolic execution cannot discharge `if !enabled { return .. }`
// on a heap-stored writer by itself. These stubs turn "the operation returned before touching its argument"
// into a proof obligation: reaching one of them fails the proof.
//   #[kani::stub(crate::dcps::xtypes_glue::key_and_instance_handle::KeyHolderData::from_dynamic_data, super::support_part2::key_holder_unreachable)]
//   #[kani::stub(crate::dcps::dcps_domain_participant::data_writer_entity::serialize, super::support_part2::serialize_unreachable)]
pub fn key_holder_unreachable<'a>(
    _value: &crate::xtypes::dynamic_type::DynamicData<'a>,
    _member_list: &'a mut Vec<crate::xtypes::dynamic_type::DynamicTypeMember>,
) -> crate::xtypes::error::XTypesResult<crate::dcps::xtypes_glue::key_and_instance_handle::KeyHolderData<'a>>
where
    'a: 'a,
{
    panic!("VERIF: the DynamicData argument was touched (key extraction reached)")
}
pub fn serialize_unreachable<'a>(
    _dynamic_data: &crate::xtypes::dynamic_type::DynamicData<'a>,
    _representation: &crate::infrastructure::qos_policy::DataRepresentationQosPolicy,
) -> crate::infrastructure::error::DdsResult<Vec<u8>> {
    panic!("VERIF: the DynamicData argument was touched (serializer reached)")
}
