// C19 — resource limits of the DataReader sample cache (reader side: ONE real
// `DataReaderEntity::<()>::add_reader_change` from a constructed symbolic pre-state) and of the
// DataWriter (writer side: ONE real `DataWriterEntity::<MockWriter>::write_w_timestamp`, which takes the
// instance handle and the serialized payload directly, so no DynamicData is executed).
//
// Counting convention (the implementation's own, accepted as the freedom DDS leaves): max_samples
// counts stored samples of kind ALIVE, max_samples_per_instance every stored sample of the instance,
// max_instances the instance handles with at least one stored sample.
use super::support_participant::VRuntime;
use super::support_reader::*;
use super::support_rtps::Discard;
use crate::dcps::dcps_domain_participant::data_writer_entity::{DataWriterEntity, RegisteredInstanceInfo};
use crate::dcps::dcps_domain_participant::rtps_traits::RtpsWriter;
use crate::infrastructure::error::DdsError;
use crate::infrastructure::instance::InstanceHandle;
use crate::infrastructure::qos::DataWriterQos;
use crate::infrastructure::qos_policy::{DestinationOrderQosPolicyKind, HistoryQosPolicyKind, Length};
use crate::infrastructure::status::SampleRejectedStatusKind;
use crate::infrastructure::time::Time;
use crate::runtime::DdsRuntime;
use crate::transport::interface::WriteMessage;
use crate::transport::types::{CacheChange, ChangeKind, Guid};
use alloc::collections::VecDeque;
use alloc::string::String;
use alloc::vec::Vec;
// alias: Kani's stub path resolver picks the derive macro `PartialEq` instead of the trait otherwise
use core::cmp::PartialEq as HandlePartialEq;

// =============================================================================================
// reader side
// =============================================================================================
struct ROut {
    res: StepResult,
    replacement_case: bool,
    keep_last: bool,
}

/// Storing the change would exceed a resource limit (in the implementation's counting convention):
/// the number of stored samples that count against the limit would grow beyond it.
fn would_exceed(cfg: &Cfg, pre: &PreState, c: &Incoming) -> bool {
    let replaces = cfg.replacement_case(pre, c);
    let total_grows = c.kind == ChangeKind::Alive && !replaces;
    (total_grows && limit_reached(pre.alive_total(), cfg.ms))
        || (pre.inst_total(c.inst) == 0 && limit_reached(pre.instances_with_samples(), cfg.mi))
        || (!replaces && limit_reached(pre.inst_total(c.inst), cfg.mspi))
}

fn c19_reader_check(st: &Structure, hist: Hist, order: DestinationOrderQosPolicyKind) -> ROut {
    let cfg = any_cfg(hist, order, zero_separation());
    let (pre, c) = any_run(st, &cfg, TimeDomain::Small);
    let mut r = build_reader(cfg.qos(), &pre);
    let res = step(&mut r, &c);
    let post = observe(&r);
    let rep_ok_after = rep_ok_real(&r);
    core::mem::forget(r);

    // (a) enforced: the cache never holds more than the limits allow
    assert!(cfg.limits_inv_post(&post), "C19: stored samples / instances / samples per instance stay within the resource limits");
    match res {
        StepResult::Added => {
            assert!(post.new_samples() == 1 && post.new_sample_matches(&c) == 1, "C19: an accepted change is stored exactly once");
        }
        StepResult::Rejected(h, reason) => {
            // (b) reported with the matching reason, for the instance of the change
            assert!(h == c.inst, "C19: the rejection names the instance of the change");
            assert!(cfg.rejection_justified(&pre, &c, reason), "C19: the rejection reason names a resource limit that is reached");
            // (c) nothing stored
            assert!(post.unchanged(&pre), "C19: a rejected change leaves the stored samples untouched");
        }
        StepResult::NotAdded => {
            assert!(false, "C19: without time-based filter and exclusive ownership a change is stored or rejected, never silently dropped");
        }
        StepResult::Error => {
            assert!(is_not_alive_kind(c.kind) && !pre.inst_known(c.inst), "C19: Err only for a dispose/unregister of an unknown instance");
            assert!(post.unchanged(&pre), "C19: an erroneous change leaves the stored samples untouched");
        }
    }
    // (d) a change that would exceed a limit is reported as rejected (not stored, not silently dropped)
    if would_exceed(&cfg, &pre, &c) && res != StepResult::Error {
        assert!(matches!(res, StepResult::Rejected(_, _)), "C19: a change that would exceed a resource limit is rejected");
    }
    assert!(cfg.history_inv_post(&post), "C19: KEEP_LAST invariant after the step");
    assert!(rep_ok_after, "reader cache representation invariant after the step");
    ROut { res, replacement_case: cfg.replacement_case(&pre, &c), keep_last: cfg.keep_last() }
}

const BY_RECEPTION: DestinationOrderQosPolicyKind = DestinationOrderQosPolicyKind::ByReceptionTimestamp;
const BY_SOURCE: DestinationOrderQosPolicyKind = DestinationOrderQosPolicyKind::BySourceTimestamp;

fn reader_covers(o: &ROut) {
    let inst = if let StepResult::Rejected(h, _) = o.res { h } else { 0 };
    kani::cover!(
        o.res == StepResult::Rejected(inst, SampleRejectedStatusKind::RejectedBySamplesLimit),
        "Rejected(SamplesLimit) taken"
    );
    kani::cover!(
        o.res == StepResult::Rejected(inst, SampleRejectedStatusKind::RejectedByInstancesLimit),
        "Rejected(InstancesLimit) taken"
    );
    kani::cover!(
        o.res == StepResult::Rejected(inst, SampleRejectedStatusKind::RejectedBySamplesPerInstanceLimit) && !o.replacement_case,
        "Rejected(SamplesPerInstanceLimit) taken outside the KEEP_LAST replacement case"
    );
    kani::cover!(o.res == StepResult::Added && !o.replacement_case, "a change below every limit is stored");
}

// =============================================================================================
// writer side
// =============================================================================================
/// Transport writer stand-in implemented through the repository's own `RtpsWriter` trait: records how
/// often `add_change` was called and with which sequence number.
pub struct MockWriter {
    pub added: usize,
    pub last_sn: i64,
}
impl RtpsWriter for MockWriter {
    fn guid(&self) -> Guid {
        Guid::from([7u8; 16])
    }
    fn add_change(
        &mut self,
        cache_change: CacheChange,
        _message_writer: &(impl WriteMessage + ?Sized),
        _runtime: &impl DdsRuntime,
    ) {
        self.added += 1;
        self.last_sn = cache_change.sequence_number;
        core::mem::forget(cache_change);
    }
}

const W_MAX_SAMPLES: usize = 3;

fn w_handle(i: usize) -> InstanceHandle {
    let mut b = [0u8; 16];
    b[0] = 1 + i as u8;
    InstanceHandle::new(b)
}

/// Symbolic pre-state of the writer's instance table: `k` (concrete) registered instances (handles 0..k)
/// with 0..=3 stored sample sequence numbers each.
struct WPre {
    k: usize,
    len: [usize; 2],
    sn0: i64,
}

fn any_wpre(k: usize) -> WPre {
    let l0: usize = kani::any();
    let l1: usize = kani::any();
    kani::assume(l0 <= W_MAX_SAMPLES && l1 <= W_MAX_SAMPLES);
    let sn0: i64 = kani::any();
    kani::assume(sn0 >= 0 && sn0 < 1_000_000);
    WPre { k, len: [if k >= 1 { l0 } else { 0 }, if k >= 2 { l1 } else { 0 }], sn0 }
}

fn build_writer(qos: DataWriterQos, pre: &WPre) -> DataWriterEntity<MockWriter> {
    let mut w = DataWriterEntity::new(
        InstanceHandle::new([0xBB; 16]),
        MockWriter { added: 0, last_sn: -1 },
        String::new(),
        qos,
    );
    w.enabled = true;
    w.last_change_sequence_number = pre.sn0;
    w.registered_instance_info = Vec::with_capacity(3);
    let mut i = 0;
    while i < 2 {
        if i < pre.k {
            let mut samples = VecDeque::with_capacity(W_MAX_SAMPLES + 1);
            let mut j = 0;
            while j < W_MAX_SAMPLES {
                if j < pre.len[i] {
                    samples.push_back(10 * (i as i64 + 1) + j as i64);
                }
                j += 1;
            }
            w.registered_instance_info.push(RegisteredInstanceInfo {
                instance_handle: w_handle(i),
                last_write_time: None,
                samples,
            });
        }
        i += 1;
    }
    w
}

#[derive(Clone, Copy, PartialEq, Eq)]
enum WMode {
    Rest,
    Known,
}

/// Trigger of KF-C19-1: the write is for an instance that is not registered yet, there is room for
/// the instance (max_instances not reached) but max_samples is reached.
fn kf_c19_1_trigger(new_instance: bool, by_instances: bool, by_total: bool) -> bool {
    new_instance && !by_instances && by_total
}

/// One real write_w_timestamp and everything observed around it.
struct WRun {
    k: usize,
    target: usize,
    new_instance: bool,
    pre_len: [usize; 2],
    target_len: usize,
    total: usize,
    sn0: i64,
    ms: Length,
    mi: Length,
    mspi: Length,
    by_instances: bool,
    by_spi: bool,
    by_total: bool,
    err: bool,
    err_is_out_of_resources: bool,
    nreg: usize,
    post_len: [usize; 3],
    handles_ok: bool,
    sn_after: i64,
    added: usize,
    added_sn: i64,
}

fn c19_writer_run(k: usize, mode: WMode) -> WRun {
    let depth: u32 = kani::any();
    kani::assume(depth <= 3);
    let (ms, mi, mspi) = (any_limit(), any_limit(), any_limit());
    let mut qos = DataWriterQos::const_default();
    qos.history.kind = if depth == 0 { HistoryQosPolicyKind::KeepAll } else { HistoryQosPolicyKind::KeepLast(depth) };
    qos.resource_limits.max_samples = ms;
    qos.resource_limits.max_instances = mi;
    qos.resource_limits.max_samples_per_instance = mspi;
    kani::assume(qos.is_consistent().is_ok());

    let pre = any_wpre(k);
    // the handle written: one of the registered ones or a new one (index k)
    let target: usize = kani::any();
    kani::assume(target <= k && target < 3);
    let new_instance = target == k;
    let target_len = if target == 0 && k >= 1 { pre.len[0] } else if target == 1 && k >= 2 { pre.len[1] } else { 0 };
    let total = pre.len[0] + pre.len[1];

    // invariant of the writer's bookkeeping (re-asserted after the step)
    kani::assume(within_limit(k, mi));
    kani::assume(within_limit(total, ms));
    kani::assume(within_limit(pre.len[0], mspi) && within_limit(pre.len[1], mspi));
    // caller contract (writer_methods.rs write_w_timestamp, behind the DynamicData serializer and therefore
    // not executed here): under KEEP_LAST(depth) the oldest sample of the instance is removed before the
    // entity is called, so the instance holds fewer than depth samples on entry
    if depth >= 1 {
        kani::assume(pre.len[0] <= depth as usize && pre.len[1] <= depth as usize);
        kani::assume(target_len < depth as usize);
    }

    let by_instances = new_instance && limit_reached(k, mi);
    let by_spi = depth == 0 && limit_reached(target_len, mspi);
    let by_total = limit_reached(total, ms);
    match mode {
        WMode::Known => kani::assume(kf_c19_1_trigger(new_instance, by_instances, by_total)),
        WMode::Rest => kani::assume(!kf_c19_1_trigger(new_instance, by_instances, by_total)),
    }

    let mut w = build_writer(qos, &pre);
    let ts = any_small_time();
    let rt = VRuntime { now: Time::new(1, 0) };
    let mut payload = Vec::with_capacity(1);
    payload.push(0xABu8);
    let res = w.write_w_timestamp(w_handle(target), payload, ts, Time::new(1, 0), &Discard, &rt);
    let (err, err_is_out_of_resources) = match res {
        Ok(()) => (false, false),
        Err(e) => {
            let oor = matches!(e, DdsError::OutOfResources);
            core::mem::forget(e);
            (true, oor)
        }
    };

    // observation
    let nreg = w.registered_instance_info.len();
    assert!(nreg <= 3, "writer: at most one instance is registered per write");
    let mut post_len = [0usize; 3];
    let mut handles_ok = true;
    let mut i = 0;
    while i < 3 {
        if i < nreg {
            let info = &w.registered_instance_info[i];
            post_len[i] = info.samples.len();
            handles_ok = handles_ok && info.instance_handle == w_handle(i);
        }
        i += 1;
    }
    let x = WRun {
        k,
        target,
        new_instance,
        pre_len: pre.len,
        target_len,
        total,
        sn0: pre.sn0,
        ms,
        mi,
        mspi,
        by_instances,
        by_spi,
        by_total,
        err,
        err_is_out_of_resources,
        nreg,
        post_len,
        handles_ok,
        sn_after: w.last_change_sequence_number,
        added: w.transport_writer.added,
        added_sn: w.transport_writer.last_sn,
    };
    core::mem::forget(w);
    x
}

/// "a refused write stores nothing", part: no instance is registered — the assertion KF-C19-1 violates
fn assert_refused_write_registers_nothing(x: &WRun) {
    if x.err {
        assert!(x.nreg == x.k, "C19: a refused write registers no instance");
    }
}

fn c19_writer_contract(x: &WRun) {
    assert!(x.handles_ok, "writer: registered instances keep their handles and order");
    if x.err {
        assert!(x.err_is_out_of_resources, "C19: a refused write reports OutOfResources");
    }
    // (a) refused <=> a limit would be exceeded
    assert!(
        x.err == (x.by_instances || x.by_spi || x.by_total),
        "C19: a write is refused with OutOfResources exactly when max_instances, max_samples_per_instance (KEEP_ALL) or max_samples is reached"
    );
    if x.err {
        // (b) nothing stored for a refused write
        assert!(x.sn_after == x.sn0, "C19: a refused write consumes no sequence number");
        assert!(x.added == 0, "C19: a refused write hands nothing to the transport writer");
        assert!(
            x.post_len[0] == x.pre_len[0] && x.post_len[1] == x.pre_len[1] && x.post_len[2] == 0,
            "C19: a refused write stores no sample"
        );
        assert_refused_write_registers_nothing(x);
    } else {
        assert!(x.sn_after == x.sn0 + 1, "C19: an accepted write takes the next sequence number");
        assert!(
            x.added == 1 && x.added_sn == x.sn0 + 1,
            "C19: an accepted write hands exactly one change with that sequence number to the transport writer"
        );
        assert!(x.nreg == if x.new_instance { x.k + 1 } else { x.k }, "C19: an accepted write registers at most its own instance");
        let mut j = 0;
        while j < 3 {
            let before = if j < 2 { x.pre_len[j] } else { 0 };
            if j == x.target {
                // (which sequence number is recorded inside the VecDeque is not read back: reading the deque
                // buffer through its symbolic-capacity growth path exhausts the SAT back end)
                assert!(x.post_len[j] == before + 1, "C19: the accepted sample is recorded in its instance");
            } else {
                assert!(x.post_len[j] == before, "C19: other instances are untouched");
            }
            j += 1;
        }
        // invariant re-established
        assert!(within_limit(x.nreg, x.mi), "C19: registered instances within max_instances");
        assert!(within_limit(x.total + 1, x.ms), "C19: stored samples within max_samples");
        assert!(within_limit(x.target_len + 1, x.mspi), "C19: samples of the instance within max_samples_per_instance");
    }
}

fn c19_writer_check(k: usize) -> WRun {
    let x = c19_writer_run(k, WMode::Rest);
    c19_writer_contract(&x);
    x
}

fn writer_covers(o: &WRun) {
    kani::cover!(o.err && o.by_instances, "OutOfResources for max_instances taken");
    kani::cover!(o.err && o.by_spi && !o.by_total, "OutOfResources for max_samples_per_instance taken");
    kani::cover!(o.err && o.by_total, "OutOfResources with max_samples reached taken");
    kani::cover!(!o.err && o.new_instance, "write of a new instance accepted");
    kani::cover!(!o.err && !o.new_instance, "write of a registered instance accepted");
}

// ===== harnesses (one Kani proof per line of the table in the file header) =====

// @check props=C19 tier=thorough
// @desc Reader, KEEP_ALL, BY_RECEPTION_TIMESTAMP, exactly 1 stored sample(s): after one real add_reader_change the cache is within max_samples / max_instances / max_samples_per_instance; Rejected(instance, reason) carries the instance of the change and a reason whose limit is reached, and then the sample list is untouched; a change whose storing would exceed a limit is Rejected (never stored, never silently dropped); all three rejection reasons are witnessed.
// @bounds exactly 1 stored sample(s), KEEP_ALL, BY_RECEPTION_TIMESTAMP, 2 instance handles (both registered), 2 writers, each resource limit in {1,2,3,unlimited} (QoS consistent), all 5 change kinds, source timestamps None or sec 0..4 x nanosec {0, 5*10^8}, symbolic sample/view/instance states, generation counts 0..2, instance_ownership empty; unwind 6
// @assume pre-state satisfies the representation invariant R1-R3, the KEEP_LAST invariant and the resource-limit invariant (all re-asserted after the step)
// @assume DataReaderQos::is_consistent() holds; ownership SHARED; time-based filter off (minimum_separation 0)
// @assume counting convention of the implementation: max_samples counts ALIVE samples, max_samples_per_instance all samples of the instance, max_instances instances with a stored sample
// @assume <InstanceHandle as PartialEq>::eq replaced by the loop-free handle_eq_stub (equivalence: c18_handle_eq_stub_is_equivalent)
// @enc dcps::dcps_domain_participant::data_reader_entity::DataReaderEntity::add_reader_change
#[kani::proof]
#[kani::unwind(6)]
#[kani::solver(minisat)]
#[kani::stub(<crate::infrastructure::instance::InstanceHandle as HandlePartialEq<crate::infrastructure::instance::InstanceHandle>>::eq, super::support_reader::handle_eq_stub)]
fn c19_reader_limits_keep_all_n1() {
    let o = c19_reader_check(&plain(1), Hist::KeepAll, BY_RECEPTION);
    reader_covers(&o);
}

// @check props=C19 tier=quick
// @desc Reader, KEEP_ALL, BY_RECEPTION_TIMESTAMP, exactly 2 stored sample(s): after one real add_reader_change the cache is within max_samples / max_instances / max_samples_per_instance; Rejected(instance, reason) carries the instance of the change and a reason whose limit is reached, and then the sample list is untouched; a change whose storing would exceed a limit is Rejected (never stored, never silently dropped); all three rejection reasons are witnessed.
// @bounds exactly 2 stored sample(s), KEEP_ALL, BY_RECEPTION_TIMESTAMP, 2 instance handles (both registered), 2 writers, each resource limit in {1,2,3,unlimited} (QoS consistent), all 5 change kinds, source timestamps None or sec 0..4 x nanosec {0, 5*10^8}, symbolic sample/view/instance states, generation counts 0..2, instance_ownership empty; unwind 6
// @assume pre-state satisfies the representation invariant R1-R3, the KEEP_LAST invariant and the resource-limit invariant (all re-asserted after the step)
// @assume DataReaderQos::is_consistent() holds; ownership SHARED; time-based filter off (minimum_separation 0)
// @assume counting convention of the implementation: max_samples counts ALIVE samples, max_samples_per_instance all samples of the instance, max_instances instances with a stored sample
// @assume <InstanceHandle as PartialEq>::eq replaced by the loop-free handle_eq_stub (equivalence: c18_handle_eq_stub_is_equivalent)
// @enc dcps::dcps_domain_participant::data_reader_entity::DataReaderEntity::add_reader_change
#[kani::proof]
#[kani::unwind(6)]
#[kani::solver(minisat)]
#[kani::stub(<crate::infrastructure::instance::InstanceHandle as HandlePartialEq<crate::infrastructure::instance::InstanceHandle>>::eq, super::support_reader::handle_eq_stub)]
fn c19_reader_limits_keep_all_n2() {
    let o = c19_reader_check(&plain(2), Hist::KeepAll, BY_RECEPTION);
    reader_covers(&o);
}

// @check props=C19 tier=quick
// @desc Writer, one registered instance with 0..3 stored samples: one real DataWriterEntity::write_w_timestamp (instance handle and serialized payload passed directly, no DynamicData) for a registered instance or a new one: Err(OutOfResources) exactly when max_instances (new instance), max_samples_per_instance (KEEP_ALL) or max_samples is reached; a refused write stores nothing (no sample, no sequence number, no transport change, no instance); an accepted write records exactly one sample, takes the next sequence number and hands one change to the transport writer. Outside the trigger of KF-C19-1.
// @bounds 1 registered instance (+1 new), 0..=3 samples, history KEEP_ALL or KEEP_LAST(1..=3), each resource limit in {1,2,3,unlimited} (QoS consistent); unwind 6
// @assume writer bookkeeping within the limits before the call (re-asserted after it); DataWriterQos::is_consistent()
// @assume caller contract under KEEP_LAST(depth): the instance holds fewer than depth samples on entry (the caller in writer_methods.rs removes the oldest one first; that code sits behind DynamicData serialisation and is not executed)
// @assume negation of the KF-C19-1 trigger: not (new instance and max_instances not reached and max_samples reached)
// @assume transport writer = MockWriter (records add_change), message writer discards, clock fixed, lifespan infinite
// @assume <InstanceHandle as PartialEq>::eq replaced by the loop-free handle_eq_stub (equivalence: c18_handle_eq_stub_is_equivalent)
// @enc dcps::dcps_domain_participant::data_writer_entity::DataWriterEntity::write_w_timestamp
#[kani::proof]
#[kani::unwind(6)]
#[kani::solver(minisat)]
#[kani::stub(<crate::infrastructure::instance::InstanceHandle as HandlePartialEq<crate::infrastructure::instance::InstanceHandle>>::eq, super::support_reader::handle_eq_stub)]
fn c19_writer_limits_k1__rest() {
    let o = c19_writer_check(1);
    writer_covers(&o);
}

// @check props=C19 tier=quick known=KF-C19-1
// @desc KF-C19-1: a write for a not yet registered instance that is refused because max_samples is reached still registers the instance (registered_instance_info grows), although the property demands that nothing is stored for a refused write.
// @bounds 1 registered instance with 1..=3 samples, max_samples reached, max_instances not reached; unwind 6
// @assume the KF-C19-1 trigger (new instance, max_instances not reached, max_samples reached)
// @assume writer bookkeeping within the limits before the call (re-asserted after it); DataWriterQos::is_consistent()
// @assume caller contract under KEEP_LAST(depth): the instance holds fewer than depth samples on entry (the caller in writer_methods.rs removes the oldest one first; that code sits behind DynamicData serialisation and is not executed)
// @assume transport writer = MockWriter (records add_change), message writer discards, clock fixed, lifespan infinite
// @assume <InstanceHandle as PartialEq>::eq replaced by the loop-free handle_eq_stub (equivalence: c18_handle_eq_stub_is_equivalent)
// @enc dcps::dcps_domain_participant::data_writer_entity::DataWriterEntity::write_w_timestamp
#[kani::proof]
#[kani::unwind(6)]
#[kani::solver(minisat)]
#[kani::stub(<crate::infrastructure::instance::InstanceHandle as HandlePartialEq<crate::infrastructure::instance::InstanceHandle>>::eq, super::support_reader::handle_eq_stub)]
fn c19_writer_refused_write_registers_instance__known() {
    let x = c19_writer_run(1, WMode::Known);
    kani::cover!(x.err && x.nreg == x.k + 1, "trigger reached: refused write, instance table grown");
    assert_refused_write_registers_nothing(&x);
}

// @check props=C19 tier=thorough
// @desc Reader, KEEP_ALL, BY_RECEPTION_TIMESTAMP, exactly 0 stored sample(s): after one real add_reader_change the cache is within max_samples / max_instances / max_samples_per_instance; Rejected(instance, reason) carries the instance of the change and a reason whose limit is reached, and then the sample list is untouched; a change whose storing would exceed a limit is Rejected (never stored, never silently dropped); all three rejection reasons are witnessed.
// @bounds exactly 0 stored sample(s), KEEP_ALL, BY_RECEPTION_TIMESTAMP, 2 instance handles (both registered), 2 writers, each resource limit in {1,2,3,unlimited} (QoS consistent), all 5 change kinds, source timestamps None or sec 0..4 x nanosec {0, 5*10^8}, symbolic sample/view/instance states, generation counts 0..2, instance_ownership empty; unwind 6
// @assume pre-state satisfies the representation invariant R1-R3, the KEEP_LAST invariant and the resource-limit invariant (all re-asserted after the step)
// @assume DataReaderQos::is_consistent() holds; ownership SHARED; time-based filter off (minimum_separation 0)
// @assume counting convention of the implementation: max_samples counts ALIVE samples, max_samples_per_instance all samples of the instance, max_instances instances with a stored sample
// @assume <InstanceHandle as PartialEq>::eq replaced by the loop-free handle_eq_stub (equivalence: c18_handle_eq_stub_is_equivalent)
// @enc dcps::dcps_domain_participant::data_reader_entity::DataReaderEntity::add_reader_change
#[kani::proof]
#[kani::unwind(6)]
#[kani::solver(minisat)]
#[kani::stub(<crate::infrastructure::instance::InstanceHandle as HandlePartialEq<crate::infrastructure::instance::InstanceHandle>>::eq, super::support_reader::handle_eq_stub)]
fn c19_reader_limits_keep_all_n0() {
    let o = c19_reader_check(&plain(0), Hist::KeepAll, BY_RECEPTION);
    kani::cover!(o.res == StepResult::Added, "first sample stored");
    assert!(!matches!(o.res, StepResult::Rejected(_, _)), "C19: an empty cache rejects nothing");
}

// @check props=C19 tier=thorough
// @desc Reader, KEEP_ALL, BY_RECEPTION_TIMESTAMP, exactly 3 stored sample(s): after one real add_reader_change the cache is within max_samples / max_instances / max_samples_per_instance; Rejected(instance, reason) carries the instance of the change and a reason whose limit is reached, and then the sample list is untouched; a change whose storing would exceed a limit is Rejected (never stored, never silently dropped); all three rejection reasons are witnessed.
// @bounds exactly 3 stored sample(s), KEEP_ALL, BY_RECEPTION_TIMESTAMP, 2 instance handles (both registered), 2 writers, each resource limit in {1,2,3,unlimited} (QoS consistent), all 5 change kinds, source timestamps None or sec 0..4 x nanosec {0, 5*10^8}, symbolic sample/view/instance states, generation counts 0..2, instance_ownership empty; unwind 6
// @assume pre-state satisfies the representation invariant R1-R3, the KEEP_LAST invariant and the resource-limit invariant (all re-asserted after the step)
// @assume DataReaderQos::is_consistent() holds; ownership SHARED; time-based filter off (minimum_separation 0)
// @assume counting convention of the implementation: max_samples counts ALIVE samples, max_samples_per_instance all samples of the instance, max_instances instances with a stored sample
// @assume <InstanceHandle as PartialEq>::eq replaced by the loop-free handle_eq_stub (equivalence: c18_handle_eq_stub_is_equivalent)
// @enc dcps::dcps_domain_participant::data_reader_entity::DataReaderEntity::add_reader_change
#[kani::proof]
#[kani::unwind(6)]
#[kani::solver(minisat)]
#[kani::stub(<crate::infrastructure::instance::InstanceHandle as HandlePartialEq<crate::infrastructure::instance::InstanceHandle>>::eq, super::support_reader::handle_eq_stub)]
fn c19_reader_limits_keep_all_n3() {
    let o = c19_reader_check(&plain(3), Hist::KeepAll, BY_RECEPTION);
    reader_covers(&o);
}

// @check props=C19 tier=thorough
// @desc Reader, KEEP_LAST(1..=3), BY_RECEPTION_TIMESTAMP, exactly 1 stored sample(s): after one real add_reader_change the cache is within max_samples / max_instances / max_samples_per_instance; Rejected(instance, reason) carries the instance of the change and a reason whose limit is reached, and then the sample list is untouched; a change whose storing would exceed a limit is Rejected (never stored, never silently dropped); all three rejection reasons are witnessed.
// @bounds exactly 1 stored sample(s), KEEP_LAST(1..=3), BY_RECEPTION_TIMESTAMP, 2 instance handles (both registered), 2 writers, each resource limit in {1,2,3,unlimited} (QoS consistent), all 5 change kinds, source timestamps None or sec 0..4 x nanosec {0, 5*10^8}, symbolic sample/view/instance states, generation counts 0..2, instance_ownership empty; unwind 6
// @assume pre-state satisfies the representation invariant R1-R3, the KEEP_LAST invariant and the resource-limit invariant (all re-asserted after the step)
// @assume DataReaderQos::is_consistent() holds; ownership SHARED; time-based filter off (minimum_separation 0)
// @assume counting convention of the implementation: max_samples counts ALIVE samples, max_samples_per_instance all samples of the instance, max_instances instances with a stored sample
// @assume <InstanceHandle as PartialEq>::eq replaced by the loop-free handle_eq_stub (equivalence: c18_handle_eq_stub_is_equivalent)
// @enc dcps::dcps_domain_participant::data_reader_entity::DataReaderEntity::add_reader_change
#[kani::proof]
#[kani::unwind(6)]
#[kani::solver(minisat)]
#[kani::stub(<crate::infrastructure::instance::InstanceHandle as HandlePartialEq<crate::infrastructure::instance::InstanceHandle>>::eq, super::support_reader::handle_eq_stub)]
fn c19_reader_limits_keep_last_n1() {
    let o = c19_reader_check(&plain(1), Hist::KeepLast, BY_RECEPTION);
    reader_covers(&o);
}

// @check props=C19 tier=thorough
// @desc Reader, KEEP_LAST(1..=3), BY_RECEPTION_TIMESTAMP, exactly 2 stored sample(s): after one real add_reader_change the cache is within max_samples / max_instances / max_samples_per_instance; Rejected(instance, reason) carries the instance of the change and a reason whose limit is reached, and then the sample list is untouched; a change whose storing would exceed a limit is Rejected (never stored, never silently dropped); all three rejection reasons are witnessed.
// @bounds exactly 2 stored sample(s), KEEP_LAST(1..=3), BY_RECEPTION_TIMESTAMP, 2 instance handles (both registered), 2 writers, each resource limit in {1,2,3,unlimited} (QoS consistent), all 5 change kinds, source timestamps None or sec 0..4 x nanosec {0, 5*10^8}, symbolic sample/view/instance states, generation counts 0..2, instance_ownership empty; unwind 6
// @assume pre-state satisfies the representation invariant R1-R3, the KEEP_LAST invariant and the resource-limit invariant (all re-asserted after the step)
// @assume DataReaderQos::is_consistent() holds; ownership SHARED; time-based filter off (minimum_separation 0)
// @assume counting convention of the implementation: max_samples counts ALIVE samples, max_samples_per_instance all samples of the instance, max_instances instances with a stored sample
// @assume <InstanceHandle as PartialEq>::eq replaced by the loop-free handle_eq_stub (equivalence: c18_handle_eq_stub_is_equivalent)
// @enc dcps::dcps_domain_participant::data_reader_entity::DataReaderEntity::add_reader_change
#[kani::proof]
#[kani::unwind(6)]
#[kani::solver(minisat)]
#[kani::stub(<crate::infrastructure::instance::InstanceHandle as HandlePartialEq<crate::infrastructure::instance::InstanceHandle>>::eq, super::support_reader::handle_eq_stub)]
fn c19_reader_limits_keep_last_n2() {
    let o = c19_reader_check(&plain(2), Hist::KeepLast, BY_RECEPTION);
    reader_covers(&o);
}

// @check props=C19 tier=thorough
// @desc Writer, two registered instances (0..3 samples each) and a third new one: one real DataWriterEntity::write_w_timestamp (instance handle and serialized payload passed directly, no DynamicData) for a registered instance or a new one: Err(OutOfResources) exactly when max_instances (new instance), max_samples_per_instance (KEEP_ALL) or max_samples is reached; a refused write stores nothing (no sample, no sequence number, no transport change, no instance); an accepted write records exactly one sample, takes the next sequence number and hands one change to the transport writer. Outside the trigger of KF-C19-1.
// @bounds 2 registered instances (+1 new), 0..=3 samples each, history KEEP_ALL or KEEP_LAST(1..=3), each resource limit in {1,2,3,unlimited} (QoS consistent); unwind 6
// @assume writer bookkeeping within the limits before the call (re-asserted after it); DataWriterQos::is_consistent()
// @assume caller contract under KEEP_LAST(depth): the instance holds fewer than depth samples on entry (the caller in writer_methods.rs removes the oldest one first; that code sits behind DynamicData serialisation and is not executed)
// @assume negation of the KF-C19-1 trigger: not (new instance and max_instances not reached and max_samples reached)
// @assume transport writer = MockWriter (records add_change), message writer discards, clock fixed, lifespan infinite
// @assume <InstanceHandle as PartialEq>::eq replaced by the loop-free handle_eq_stub (equivalence: c18_handle_eq_stub_is_equivalent)
// @enc dcps::dcps_domain_participant::data_writer_entity::DataWriterEntity::write_w_timestamp
#[kani::proof]
#[kani::unwind(6)]
#[kani::solver(minisat)]
#[kani::stub(<crate::infrastructure::instance::InstanceHandle as HandlePartialEq<crate::infrastructure::instance::InstanceHandle>>::eq, super::support_reader::handle_eq_stub)]
fn c19_writer_limits_k2__rest() {
    let o = c19_writer_check(2);
    writer_covers(&o);
    kani::cover!(o.err && o.by_total && !o.by_spi && !o.by_instances, "OutOfResources for max_samples alone taken");
}

// @check props=C19 tier=thorough
// @desc Writer, no registered instance (the first write registers its instance and is accepted: an empty writer reaches no limit): one real DataWriterEntity::write_w_timestamp (instance handle and serialized payload passed directly, no DynamicData) for a registered instance or a new one: Err(OutOfResources) exactly when max_instances (new instance), max_samples_per_instance (KEEP_ALL) or max_samples is reached; a refused write stores nothing (no sample, no sequence number, no transport change, no instance); an accepted write records exactly one sample, takes the next sequence number and hands one change to the transport writer. Outside the trigger of KF-C19-1.
// @bounds 0 registered instances, history KEEP_ALL or KEEP_LAST(1..=3), each resource limit in {1,2,3,unlimited} (QoS consistent); unwind 6
// @assume writer bookkeeping within the limits before the call (re-asserted after it); DataWriterQos::is_consistent()
// @assume caller contract under KEEP_LAST(depth): the instance holds fewer than depth samples on entry (the caller in writer_methods.rs removes the oldest one first; that code sits behind DynamicData serialisation and is not executed)
// @assume negation of the KF-C19-1 trigger: not (new instance and max_instances not reached and max_samples reached)
// @assume transport writer = MockWriter (records add_change), message writer discards, clock fixed, lifespan infinite
// @assume <InstanceHandle as PartialEq>::eq replaced by the loop-free handle_eq_stub (equivalence: c18_handle_eq_stub_is_equivalent)
// @enc dcps::dcps_domain_participant::data_writer_entity::DataWriterEntity::write_w_timestamp
#[kani::proof]
#[kani::unwind(6)]
#[kani::solver(minisat)]
#[kani::stub(<crate::infrastructure::instance::InstanceHandle as HandlePartialEq<crate::infrastructure::instance::InstanceHandle>>::eq, super::support_reader::handle_eq_stub)]
fn c19_writer_limits_k0__rest() {
    let o = c19_writer_check(0);
    kani::cover!(!o.err && o.new_instance, "first write accepted");
    assert!(!o.err, "C19: an empty writer refuses nothing");
}
