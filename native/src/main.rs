//! Native oracle for the MIR->SMT engine: evaluates the real, natively compiled functions of
//! dust_dds (through its public API) on concrete inputs read from stdin, one query per line.
//! Used (a) to validate the translator on the repo's own test inputs and on solver models and
//! (b) to replay solver counterexamples before they are reported.
use dust_dds::infrastructure::time::{Duration, Time};
use std::io::BufRead;

fn main() {
    let stdin = std::io::stdin();
    for line in stdin.lock().lines() {
        let line = line.unwrap();
        let p: Vec<&str> = line.split_whitespace().collect();
        if p.is_empty() {
            continue;
        }
        let r = std::panic::catch_unwind(|| eval(&p));
        match r {
            Ok(s) => println!("{} => {}", line, s),
            Err(_) => println!("{} => panic", line),
        }
    }
}

fn i(s: &str) -> i64 {
    s.parse().unwrap()
}

fn eval(p: &[&str]) -> String {
    match p[0] {
        // dds Duration -> rtps behavior Duration (wire form of QoS durations)
        "dur_to_rtps" => {
            let d = Duration::new(i(p[1]) as i32, i(p[2]) as u32);
            let r = dust_dds::rtps::behavior_types::Duration::from(d);
            format!("{} {}", r.seconds(), r.fraction())
        }
        "rtps_to_dur" => {
            let r = dust_dds::rtps::behavior_types::Duration::new(i(p[1]) as i32, i(p[2]) as u32);
            let d = Duration::from(r);
            format!("{} {}", d.sec(), d.nanosec())
        }
        // transport Time -> rtps_messages Time (INFO_TS) and back
        "ttime_to_rtps" => {
            let t = dust_dds::transport::types::Time::new(i(p[1]) as i32, i(p[2]) as u32);
            let r = dust_dds::rtps_messages::types::Time::from(t);
            format!("{} {}", r.seconds(), r.fraction())
        }
        "rtps_to_ttime" => {
            let r = dust_dds::rtps_messages::types::Time::new(i(p[1]) as u32, i(p[2]) as u32);
            let t = dust_dds::transport::types::Time::from(r);
            format!("{} {}", t.sec(), t.nanosec())
        }
        "dur_new" => {
            let d = Duration::new(i(p[1]) as i32, i(p[2]) as u32);
            format!("{} {}", d.sec(), d.nanosec())
        }
        "time_new" => {
            let d = Time::new(i(p[1]) as i32, i(p[2]) as u32);
            format!("{} {}", d.sec(), d.nanosec())
        }
        "dur_add" => {
            let d = Duration::new(i(p[1]) as i32, i(p[2]) as u32) + Duration::new(i(p[3]) as i32, i(p[4]) as u32);
            format!("{} {}", d.sec(), d.nanosec())
        }
        "dur_sub" => {
            let d = Duration::new(i(p[1]) as i32, i(p[2]) as u32) - Duration::new(i(p[3]) as i32, i(p[4]) as u32);
            format!("{} {}", d.sec(), d.nanosec())
        }
        "time_add" => {
            let d = Time::new(i(p[1]) as i32, i(p[2]) as u32) + Duration::new(i(p[3]) as i32, i(p[4]) as u32);
            format!("{} {}", d.sec(), d.nanosec())
        }
        "time_sub" => {
            let d = Time::new(i(p[1]) as i32, i(p[2]) as u32) - Time::new(i(p[3]) as i32, i(p[4]) as u32);
            format!("{} {}", d.sec(), d.nanosec())
        }
        "dur_to_core" => {
            let d: core::time::Duration = Duration::new(i(p[1]) as i32, i(p[2]) as u32).into();
            format!("{} {}", d.as_secs(), d.subsec_nanos())
        }
        other => format!("unknown query {}", other),
    }
}
